"""Configurations of the whole-function translations (harness/py2gal.py) written into
coq/theories/Generated/ on every run by gen_consts.py.  One entry per translated function."""

C16_FILTER = dict(
    file="src/batchie/policies/k_per_sample.py", cls="KPerSamplePlatePolicy", func="filter_eligible_plates",
    out="SrcPolicy.v", imports="Model.Policy", name="src_filter_eligible_plates",
    pyparams=["self", "batch_plates", "unobserved_plates", "rng"], unused_params=["rng"],
    params=[("k", "Z"), ("batch_plates", "list plate"), ("unobserved_plates", "list plate")],
    returns="list plate",
    vars={
        "plate": "plate", "sample_id": "Z", "v": "Z",
        "n_plates_per_sample": "dict", "n_plates_already_selected_per_sample": "dict",
        "sample_ids_with_insufficient_plates": "set", "sample_chosen": "opt Z",
        "result": "list plate", "sample_id_has_not_yet_been_selected": "bool",
    },
    prims=[
        ("self.k", "k", "Z"),
        ("__p.n_unique_samples", "n_unique (rows {p})", "Z"),     # Plate.n_unique_samples = len(np.unique(sample_ids))
        ("__p.sample_ids[0]", "sample_of {p}", "Z"),              # first row's sample id
        ("defaultdict(int)", "[]", "dict"),
        ("set()", "[]", "set"),
    ],
    raises=[("KPerSampleBatcher only works if all plates", 1)],
)

C17_SAMPLE = dict(
    file="src/batchie/sampling.py", func="sample",
    out="SrcSampling.v", imports="Model.Sampling", name="src_sample",
    pyparams=["model", "results", "seed", "n_chains", "chain_index", "n_burnin", "thin", "progress_bar"],
    # kind: which class the model object is an instance of (0 MCMCModel, 1 VIModel, other neither);
    # n_thetas = results.n_thetas; w = (calls so far, len(results.thetas)); returned = len(model.sample(...))
    params=[("kind", "Z"), ("seed", "Z"), ("n_chains", "opt Z"), ("chain_index", "opt Z"), ("n_burnin", "opt Z"),
            ("thin", "opt Z"), ("n_thetas", "Z"), ("w", "world"), ("returned", "nat")],
    returns="world",
    vars={"seeds": "seeds", "rng": "rngkey", "total_steps": "Z", "step_index": "Z", "samples": "list theta", "theta": "theta"},
    match_class={"model": {"MCMCModel": "kind =? 0", "VIModel": "kind =? 1"}},
    range_like=("range", "trange"),     # tqdm.trange(n, disable=...) iterates range(n)
    prims=[
        ("results.n_thetas", "n_thetas", "Z"),
        ("results", "w", "world"),
        ("numpy.random.SeedSequence(__s).spawn(__n)", "!spawn_seeds {s} {n}", "seeds", {"s": "Z", "n": "Z"}),
        ("numpy.random.default_rng(__q[__i])", "!rng_of_spawned {q} {i}", "rngkey", {"q": "seeds", "i": "Z"}),
    ],
    effects=[
        ("model.reset_model()", "w", "emit {state} Reset"),
        ("model.set_rng(__r)", "w", "emit {state} (SetRng (fst {r}) (snd {r}))"),
        ("model.step()", "w", "emit {state} Step"),
        ("results.add_theta(model.get_model_state())", "w", "!add_theta n_thetas {state}"),
        ("results.add_theta(__t)", "w", "!add_theta n_thetas {state}"),
    ],
    effect_calls=[
        ("model.sample(num_samples=__n)", "w", "emit {state} (SampleVI {n})", "vi_samples returned", "list theta"),
    ],
    ignore=["logger.info(__a)"],
    raises=[("n_chains must be set", 5), ("chain_index must be set", 5), ("n_burnin must be set", 5),
            ("thin must be set", 5), ("model must be one of", 6)],
)

# ---- C10: batchie.core.ThetaHolder.  A holder object is a value (class id, attribute values) of type pyobj (Model/Thetas.v).
_OBJ, _THETA = "(pyobj P S)", "(theta P S)"
_C10 = dict(
    file="src/batchie/core.py", cls="ThetaHolder", out="SrcThetas.v", imports="Model.Thetas",
    # the two instance attributes (set in __init__) are the two fields of the model's holder
    fields={"thetas": (_OBJ, "list " + _THETA, "attr_thetas {obj}", "set_attr_thetas {obj} {val}"),
            "_n_thetas": (_OBJ, "Z", "attr_n_thetas {obj}", "set_attr_n_thetas {obj} {val}")},
)
_LEN = ("len(__l)", "Z.of_nat (length {l})", "Z")
# property access h.n_thetas runs the translated property ThetaHolder.n_thetas
_N_THETAS = ("__h.n_thetas", "!src_n_thetas P S {h}", "Z", {"h": _OBJ})
# ThetaHolder(n): a new instance of class 0 (ThetaHolder itself) initialised by the translated __init__
_NEW_HOLDER = "!src_init P S (py_blank 0) {n}"
_TYPE_NE = ("type(__a) != type(__b)", "negb (py_class {a} =? py_class {b})", "bool", {"a": _OBJ, "b": _OBJ})

C10_INIT = dict(
    _C10, func="__init__", name="src_init", pyparams=["self", "n_thetas"],     # (*args, **kwargs are not read)
    params=[("P", "Type"), ("S", "Type"), ("self", _OBJ), ("n_thetas", "Z")], returns=_OBJ, vars={},
    implicit_return="{self}",
)
C10_N_THETAS = dict(
    _C10, func="n_thetas", name="src_n_thetas", pyparams=["self"],
    params=[("P", "Type"), ("S", "Type"), ("self", _OBJ)], returns="Z", vars={},
)
C10_GET = dict(
    _C10, func="get_theta", name="src_get_theta", pyparams=["self", "step_index"],
    params=[("P", "Type"), ("S", "Type"), ("self", _OBJ), ("step_index", "Z")], returns=_THETA, vars={},
    prims=[_LEN, ("__l[__i]", "!list_get {l} {i}", _THETA, {"l": "list " + _THETA, "i": "Z"})],
    raises=[("step_index out of bounds", 2)],
)
C10_ADD = dict(
    _C10, func="add_theta", name="src_add_theta", pyparams=["self", "theta"],
    params=[("P", "Type"), ("S", "Type"), ("self", _OBJ), ("theta", _THETA)], returns=_OBJ, vars={},
    prims=[_LEN, _N_THETAS],
    raises=[("Cannot add more samples to the results object", 1)],
    implicit_return="{self}",
)
C10_IS_COMPLETE = dict(
    _C10, func="is_complete", name="src_is_complete", pyparams=["self"],
    params=[("P", "Type"), ("S", "Type"), ("self", _OBJ)], returns="bool", vars={},
    prims=[_LEN, _N_THETAS],
)
C10_COMBINE = dict(
    _C10, func="combine", name="src_combine", pyparams=["self", "other"],
    params=[("P", "Type"), ("S", "Type"), ("self", _OBJ), ("other", _OBJ)], returns=_OBJ,
    vars={"n_thetas": "Z", "result": _OBJ},
    prims=[_TYPE_NE, _N_THETAS,
           ("ThetaHolder(__n)", _NEW_HOLDER, _OBJ, {"n": "Z"})],
    raises=[("Cannot combine with different type", 6)],
)
C10_CONCAT = dict(
    _C10, func="concat", name="src_concat", pyparams=["cls", "instances"], unused_params=["cls"],
    params=[("P", "Type"), ("S", "Type"), ("instances", "list " + _OBJ)], returns=_OBJ,
    vars={"first": _OBJ, "instance": _OBJ},
    prims=[_LEN, _TYPE_NE,
           ("__l[1:]", "tl {l}", "list " + _OBJ, {"l": "list " + _OBJ}),
           ("__l[__i]", "!list_get {l} {i}", _OBJ, {"l": "list " + _OBJ, "i": "Z"}),
           # a.combine(b) runs the translated method ThetaHolder.combine
           ("__a.combine(__b)", "!src_combine P S {a} {b}", _OBJ, {"a": _OBJ, "b": _OBJ})],
    raises=[("Cannot concatenate an empty list of ThetaHolder", 3), ("Cannot concatenate different types of ThetaHolder", 7)],
)

_FILE = "(file P S)"
# "read an HDF5 group into a dict" (attributes first, then every dataset): the group's content IS that dict in the model
_READ_SHARED = """
shared_params = {}
shared_grp = __f['shared_params']
shared_params.update(shared_grp.attrs.items())
for key in shared_grp.keys():
    shared_params[key] = shared_grp[key][:]
"""
_READ_PRIVATE = """
private_params = {}
private_params.update(__g.attrs.items())
for key in __g.keys():
    private_params[key] = __g[key][:]
"""
C10_LOAD = dict(
    _C10, func="load_h5", name="src_load_h5", pyparams=["path"],
    params=[("P", "Type"), ("S", "Type"), ("h5", _FILE)], returns=_OBJ,     # h5 = what the file at `path` holds
    vars={"f": _FILE, "n_thetas": "Z", "result": _OBJ, "theta_class": "sample_class", "theta_module": "sample_class",
          "ThetaClass": "sample_class", "shared_params": "S", "private_grp": "(h5groups P)", "theta_keys": "list h5name",
          "theta_key": "h5name", "i_grp": "P", "private_params": "P", "theta": _THETA},
    contexts=[("h5py.File(path, 'r')", "h5", _FILE)],
    prims=[("__f.attrs['n_thetas']", "f_n {f}", "Z", {"f": _FILE}),
           ("__f.attrs['theta_class']", "tt", "sample_class", {"f": _FILE}),
           ("__f.attrs['theta_module']", "tt", "sample_class", {"f": _FILE}),
           ("getattr(importlib.import_module(__m), __c)", "tt", "sample_class", {"m": "sample_class", "c": "sample_class"}),
           ("ThetaHolder(n_thetas=__n)", _NEW_HOLDER, _OBJ, {"n": "Z"}),
           ("__f['private_params']", "f_groups {f}", "(h5groups P)", {"f": _FILE}),
           ("sorted(list(__g.keys()), key=int)", "sorted_by_int (group_names {g})", "list h5name", {"g": "(h5groups P)"}),
           ("__g[__k]", "!group_member {g} {k}", "P", {"g": "(h5groups P)", "k": "h5name"}),
           # from_dicts rebuilds the sample from its two dicts: a sample IS the pair in the model
           ("__c.from_dicts(private_params=__p, shared_params=__s)", "({p}, {s})", _THETA, {"c": "sample_class", "p": "P", "s": "S"})],
    stmt_prims=[(_READ_SHARED, "shared_params", "f_shared {f}", "S", {"f": _FILE}),
                (_READ_PRIVATE, "private_params", "{g}", "P", {"g": "P"})],
    # result.add_theta(t) runs the translated method add_theta on the local object
    effects=[("result.add_theta(__t)", "result'", "!src_add_theta P S {state} {t}")],
)

_H5W = "(h5w P S)"
# "write a dict into an HDF5 group" (arrays as datasets, scalars as attributes)
_WRITE_SHARED = """
shared_grp = f.create_group('shared_params')
for key, val in __d.items():
    if isinstance(val, ArrayType):
        shared_grp.create_dataset(key, data=val, compression='gzip')
    else:
        shared_grp.attrs.create(key, val)
"""
_WRITE_PRIVATE = """
i_grp = private_grp.create_group(str(__i))
private_params = __t.private_parameters_dict()
for key, val in private_params.items():
    if isinstance(val, ArrayType):
        i_grp.create_dataset(key, data=val, compression='gzip')
    else:
        i_grp.attrs.create(key, val)
"""
C10_SAVE = dict(
    _C10, func="save_h5", name="src_save_h5", pyparams=["self", "fn"],
    params=[("P", "Type"), ("S", "Type"), ("self", _OBJ)], returns=_H5W,       # returns what has been written to `fn`
    vars={"shared_params": "S", "theta_class": "sample_class", "theta_module": "sample_class", "f": _H5W,
          "private_grp": "h5handle", "i": "Z", "theta": _THETA},
    contexts=[("h5py.File(fn, 'w')", "h5_new", _H5W)],
    prims=[_LEN, _N_THETAS,
           ("__t.shared_parameters_dict()", "snd {t}", "S", {"t": _THETA}),     # a sample IS the pair (private, shared)
           ("__t.__class__.__name__", "tt", "sample_class", {"t": _THETA}),
           ("__t.__class__.__module__", "tt", "sample_class", {"t": _THETA}),
           ("__l[__i]", "!list_get {l} {i}", _THETA, {"l": "list " + _THETA, "i": "Z"})],
    effects=[("f.attrs.create('n_thetas', __v)", "f'", "h5_set_n {state} {v}"),
             ("f.attrs.create('theta_class', __c)", "f'", "{state}"),            # the sample class is not modelled
             ("f.attrs.create('theta_module', __c)", "f'", "{state}")],
    effect_calls=[("f.create_group('private_params')", "f'", "h5_create_private {state}", "tt", "h5handle")],
    # str(i) of a non-negative int is its decimal string; private_parameters_dict() is the first component of the pair
    stmt_prims=[(_WRITE_SHARED, "f", "h5_write_shared f' {d}", _H5W, {"d": "S"}),
                (_WRITE_PRIVATE, "f", "h5_add_group f' (key_of_index (Z.to_nat {i})) (fst {t})", _H5W, {"i": "Z", "t": _THETA})],
    globals=["isinstance", "ArrayType", "str"],
    raises=[("Cannot save an empty ThetaHolder", 4)],
    implicit_return="{f}",
)

# ---- scoring/main.py (C06 vocabulary: Model/Scores.v) ----
# Trusted per entry: one attribute / library call each.  A Plate object is Scores.plate (its id and the (position, row)
# pairs it selects), the Screen is the list of its rows, the ScoresHolder is Scores.holder, the policy an optional
# function (batch plates, candidates) -> plates.
_SCORING_PRIMS = [
    ("np.random.default_rng()", "fresh_rng", "rng_t"),
    ("screen.plates", "plates screen'", "list plate"),                 # [get_plate(x) for x in np.unique(plate_ids)]
    ("__p.plate_id", "p_id {p}", "Z", {"p": "plate"}),
    ("__p.is_observed", "is_observed {p}", "bool", {"p": "plate"}),   # np.all(observation_mask)
    ("sorted(__l, key=lambda p: p.plate_id)", "sorted_by_id {l}", "list plate", {"l": "list plate"}),   # stable
]

C06_SELECT = dict(
    file="src/batchie/scoring/main.py", func="select_next_plate",
    out="SrcScoring.v", imports="Model.Scores", name="src_select_next_plate",
    pyparams=["scores", "screen", "policy", "batch_plate_ids", "rng"],
    params=[("scores", "holder"), ("screen", "screen"), ("policy", "opt policy_t"), ("batch_plate_ids", "opt list Z"),
            ("rng", "opt rng_t")],
    returns="opt plate",
    vars={
        "rng": "rng_t", "batch_plate_ids": "list Z",       # narrowed by the `if x is None: x = default` idiom
        "plate": "plate", "batch_plates": "list plate", "unobserved_plates_not_already_selected": "list plate",
        "eligible_plates": "list plate", "eligible_plate_ids": "list Z", "best_plate_id": "Z", "best_plate": "plate",
        "best_plate_name": "nat",
    },
    prims=_SCORING_PRIMS + [
        # the policy object is its filter function; rng is handed on unread
        ("__f.filter_eligible_plates(batch_plates=__b, unobserved_plates=__u, rng=__r)", "{f} {b} {u}", "list plate",
         {"f": "policy_t", "b": "list plate", "u": "list plate", "r": "rng_t"}),
        ("scores.plate_id_with_minimum_score(__e)", "!min_plate scores' (Some {e})", "Z", {"e": "list Z"}),
        ("screen.get_plate(__i)", "get_plate screen' {i}", "plate", {"i": "Z"}),     # Plate(screen, plate_ids == i)
        ("__p.plate_name", "!plate_name {p}", "nat", {"p": "plate"}),
    ],
    ignore=["logger.warning(__a)", "logger.info(__a)"],
)

C06_SCORE_CHUNK = dict(
    file="src/batchie/scoring/main.py", func="score_chunk",
    out="SrcScoring.v", imports="Model.Scores", name="src_score_chunk",
    pyparams=["scorer", "thetas", "screen", "distance_matrix", "rng", "progress_bar", "n_chunks", "chunk_index", "batch_plate_ids"],
    # thetas, distance_matrix, progress_bar are only handed on to scorer.score, whose answer is an arbitrary function of the plates dict
    params=[("scorer", "scorer_fn"), ("screen", "screen"), ("rng", "opt rng_t"), ("n_chunks", "Z"), ("chunk_index", "Z"),
            ("batch_plate_ids", "opt list Z")],
    returns="holder",
    vars={
        "rng": "rng_t", "plate": "plate", "p": "plate",
        "unobserved_plates": "list plate", "chunk_plates": "list plate", "previously_selected_plates": "list plate",
        "previously_selected_plates_combined": "subset", "conditioned_plate": "subset", "plates_to_score": "dict subset",
        "scores_holder": "holder", "scores": "dict", "k": "Z", "v": "Z",
    },
    coerce=[("plate", "subset", "p_rows {x}")],        # a Plate is a ScreenSubset: its selection
    prims=_SCORING_PRIMS + [
        ("np.array_split(__l, __n)[__i].tolist()", "!array_split_at {l} {n} {i}", "list plate", {"l": "list plate", "n": "Z", "i": "Z"}),
        ("ScreenSubset.concat(__l)", "!subset_concat screen' {l}", "subset", {"l": "list subset"}),
        ("__p.combine(__q)", "subset_union screen' {p} {q}", "subset", {"p": "subset", "q": "subset"}),
        ("filter_dataset_to_unique_treatments(__x)", "uniq_first [] {x}", "subset", {"x": "subset"}),
        ("len(__d)", "Z.of_nat (length {d})", "Z"),
        ("ChunkedScoresHolder(__n)", "holder_new (Z.to_nat {n})", "holder", {"n": "Z"}),
        ("scorer.score(plates=__p, distance_matrix=distance_matrix, samples=thetas, rng=__r, progress_bar=progress_bar)",
         "scorer' {p}", "dict", {"p": "dict subset", "r": "rng_t"}),
    ],
    effects=[("scores_holder.add_score(__k, __v)", "scores_holder'", "!add_score {state} {k} {v}")],
    ignore=["logger.info(__a)"],
)

# ---- scoring/main.py select_next_plate once more, in the C16 vocabulary (Model/Policy.v): a Plate object is (id, sample ids),
# `observed` its is_observed attribute, the ScoresHolder the list of its (plate id, score key) slots, the policy object
# KPerSamplePlatePolicy(k) is k and its method the C16 model function (itself linked to the source by C16_model_is_source)
C16_SELECT = dict(
    file="src/batchie/scoring/main.py", func="select_next_plate",
    out="SrcScoringPolicy.v", imports="Model.Policy", name="src_select_next_plate_k",
    pyparams=["scores", "screen", "policy", "batch_plate_ids", "rng"],
    params=[("observed", "plate -> bool"), ("scores", "list (Z * Z)"), ("screen", "list plate"), ("policy", "opt Z"),
            ("batch_plate_ids", "opt list Z"), ("rng", "opt rng_t")],
    returns="opt plate",
    vars={
        "rng": "rng_t", "batch_plate_ids": "list Z",       # narrowed by the `if x is None: x = default` idiom
        "plate": "plate", "batch_plates": "list plate", "unobserved_plates_not_already_selected": "list plate",
        "eligible_plates": "list plate", "eligible_plate_ids": "list Z", "best_plate_id": "Z", "best_plate": "plate",
        "best_plate_name": "Z",
    },
    prims=[
        ("np.random.default_rng()", "fresh_rng", "rng_t"),
        ("screen.plates", "screen'", "list plate"),
        ("__p.plate_id", "plate_id {p}", "Z", {"p": "plate"}),
        ("__p.is_observed", "observed {p}", "bool", {"p": "plate"}),
        ("sorted(__l, key=lambda p: p.plate_id)", "sort_by_id {l}", "list plate", {"l": "list plate"}),   # stable
        ("__f.filter_eligible_plates(batch_plates=__b, unobserved_plates=__u, rng=__r)", "!filter_eligible {f} {b} {u}", "list plate",
         {"f": "Z", "b": "list plate", "u": "list plate", "r": "rng_t"}),
        ("scores.plate_id_with_minimum_score(__e)", "!min_score_id scores' {e}", "Z", {"e": "list Z"}),
        ("screen.get_plate(__i)", "get_plate screen' {i}", "plate", {"i": "Z"}),
        ("__p.plate_name", "!plate_name {p}", "Z", {"p": "plate"}),
    ],
    ignore=["logger.warning(__a)", "logger.info(__a)"],
)

# ---- ChunkedScoresHolder: the two numpy arrays are lists, `self` is (scores, plate_ids, current_index) ----
_HOLDER_ATTRS = {"self.scores": "scores", "self.plate_ids": "plate_ids", "self.current_index": "current_index"}
_HOLDER_STATE = [("scores", "list Z"), ("plate_ids", "list Z"), ("current_index", "Z")]

C06_ADD_SCORE = dict(
    file="src/batchie/scoring/main.py", cls="ChunkedScoresHolder", func="add_score",
    out="SrcScoring.v", imports="Model.Scores", name="src_add_score",
    pyparams=["self", "plate_id", "score"], attr_vars=_HOLDER_ATTRS,
    params=_HOLDER_STATE + [("plate_id", "Z"), ("score", "Z")],
    returns="(list Z * list Z * Z)", vars={}, prims=[],
    index_error=4,                                             # a[i] = v past the end
    implicit_return="({scores}, {plate_ids}, {current_index})",   # the state of self when the method ends
)

C06_COMBINE = dict(
    file="src/batchie/scoring/main.py", cls="ChunkedScoresHolder", func="combine",
    out="SrcScoring.v", imports="Model.Scores", name="src_combine",
    pyparams=["self", "other"],
    attr_vars=dict(_HOLDER_ATTRS, **{"other.scores": "other_scores", "other.plate_ids": "other_plate_ids"}),
    params=_HOLDER_STATE + [("other_scores", "list Z"), ("other_plate_ids", "list Z")],
    returns="(list Z * list Z * Z)", vars={"scores": "list Z", "plate_ids": "list Z"},
    prims=[
        ("np.concatenate((__a, __b))", "{a} ++ {b}", "list Z", {"a": "list Z", "b": "list Z"}),
        ("len(__a)", "Z.of_nat (length {a})", "Z"),
        ("self", "(scores', plate_ids', current_index')", "(list Z * list Z * Z)"),     # `return self`: its state at that point
    ],
)

C06_MIN_SCORE = dict(
    file="src/batchie/scoring/main.py", cls="ChunkedScoresHolder", func="plate_id_with_minimum_score",
    out="SrcScoring.v", imports="Model.Scores", name="src_plate_id_with_minimum_score",
    pyparams=["self", "eligible_plate_ids"], attr_vars=_HOLDER_ATTRS,
    params=[("scores", "list Z"), ("plate_ids", "list Z"), ("eligible_plate_ids", "opt list Z")],
    returns="Z", vars={"mask": "list bool"},
    prims=[
        ("__a[__i].item()", "!array_item {a} {i}", "Z", {"a": "list Z", "i": "Z"}),
        ("__a.argmin()", "!argmin_index {a}", "Z", {"a": "list Z"}),       # numpy: first minimum, ValueError on empty
        ("np.isin(__a, __l)", "isin {a} {l}", "list bool", {"a": "list Z", "l": "list Z"}),
        ("__a[__m]", "!mask_select {a} {m}", "list Z", {"a": "list Z", "m": "list bool"}),
    ],
)

C06_CONCAT = dict(
    file="src/batchie/scoring/main.py", cls="ChunkedScoresHolder", func="concat",
    out="SrcScoring.v", imports="Model.Scores", name="src_concat",
    pyparams=["cls", "scores_list"], params=[("scores_list", "list holder")],
    returns="holder", vars={"current": "holder", "scores": "holder"},
    prims=[
        ("__l[0]", "!list_head {l}", "holder", {"l": "list holder"}),
        ("__l[1:]", "tl {l}", "list holder", {"l": "list holder"}),
        ("__a.combine(__b)", "h_combine {a} {b}", "holder", {"a": "holder", "b": "holder"}),   # linked by C06_COMBINE
    ],
    raises=[("Must provide at least one ChunkedScoresHolder", 5)],
)

C07_LOWER_TRI = dict(
    file="src/batchie/distance_calculation.py", func="lower_triangular_indices",
    out="SrcChunks.v", imports="Model.Chunks", name="src_lower_triangular_indices",
    pyparams=["n"], params=[("n", "Z")], returns="list (Z * Z)", generator="(Z * Z)",
    vars={"i": "Z", "j": "Z"},
)

# C11 / C13: the wrappers of every retrospective generator / smoother (core.py).  `f` is the abstract method
# (self._generate_plates / self._smooth_plates): ANY function of the screen and the unread recorded answers `ds`.
_C11_WRAP = dict(
    file="src/batchie/core.py", out="SrcRetro.v", imports="Model.Encode Model.Screen Model.Retro",
    pyparams=["self", "screen", "rng"],
    params=[("f", "inner"), ("screen", "screen_t"), ("ds", "list draw")],
    returns="screen_t", return_state=["ds"],
    vars={"unobserved_subset": "opt subset_t", "observed_subset": "opt subset_t",
          "new_unobserved_subset": "screen_t", "combined_screen": "screen_t"},
    prims=[
        ("__s.subset_unobserved()", "subset_unobserved {s}", "opt subset_t", {"s": "screen_t"}),
        ("__s.subset_observed()", "subset_observed {s}", "opt subset_t", {"s": "screen_t"}),
        ("__s.to_screen()", "to_screen {s}", "screen_t", {"s": "subset_t"}),
        ("__a.combine(__b)", "!combine_screens {a} {b}", "screen_t", {"a": "screen_t", "b": "screen_t"}),
    ],
    ignore=["logger.warning(__a)"],
)
C11_GENERATE_PLATES = dict(
    _C11_WRAP, cls="RetrospectivePlateGenerator", func="generate_plates", name="src_generate_plates",
    state_calls=[("self._generate_plates(__s, rng)", ["ds"], "f {s} ds", "screen_t", {"s": "screen_t"})])
C11_SMOOTH_PLATES = dict(
    _C11_WRAP, cls="RetrospectivePlateSmoother", func="smooth_plates", name="src_smooth_plates",
    state_calls=[("self._smooth_plates(__s, rng)", ["ds"], "f {s} ds", "screen_t", {"s": "screen_t"})])

# MergeMinPlateSmoother (retrospective.py).  A Plate is its selection vector (`bvec`) into its parent screen `s`, which
# Plate.merge mutates in place: the parent of every plate the method handles is `current_screen` (they all come from
# current_screen.plates), so the primitives that read or write the parent name that variable.
C13_MERGEMIN_SAMPLE_ID = dict(
    file="src/batchie/retrospective.py", cls="MergeMinPlateSmoother", func="_get_plate_sample_id",
    out="SrcRetro.v", imports="Model.Encode Model.Screen Model.Retro", name="src_merge_min_get_plate_sample_id",
    pyparams=["self", "plate"], params=[("s", "screen_t"), ("plate", "bvec")], returns="name", vars={},
    prims=[
        ("__p.unique_sample_ids", "plate_unique_samples {p} s", "list name", {"p": "bvec"}),
        ("len(__l)", "zlen {l}", "Z"),
        ("__l[0]", "!first_item {l}", "name", {"l": "list name"}),
    ],
    raises=[("only valid for one-sample-per-plate designs", 4)],
)
C13_MERGEMIN = dict(
    file="src/batchie/retrospective.py", cls="MergeMinPlateSmoother", func="_smooth_plates",
    out="SrcRetro.v", imports="Model.Encode Model.Screen Model.Retro", name="src_merge_min_smooth_plates",
    pyparams=["self", "screen", "rng"], unused_params=["rng"],
    params=[("min_size", "Z"), ("screen", "screen_t"), ("ds", "list draw"), ("fuel", "nat")],
    returns="screen_t", return_state=["ds"], while_fuel="fuel",
    vars={"current_screen": "screen_t", "sample_id": "name", "plate_heap": "list bvec", "smallest_plate": "bvec",
          "second_smallest_plate": "bvec", "merged_plate": "bvec"},
    eqb={"name": "name_eqb"},
    prims=[
        ("self.min_size", "min_size", "Z"),
        ("__s.unique_sample_ids", "sample_names {s}", "list name", {"s": "screen_t"}),   # ids = ranks of the sorted names
        ("__s.plates", "plates_of {s}", "list bvec", {"s": "screen_t"}),
        ("self._get_plate_sample_id(__p)", "!src_merge_min_get_plate_sample_id current_screen' {p}", "name", {"p": "bvec"}),
        ("len(__l)", "zlen {l}", "Z"),
        ("__p.size", "plate_size {p}", "Z", {"p": "bvec"}),
    ],
    effects=[
        ("heapq.heapify(plate_heap)", "plate_heap'", "{state}"),                    # heap = the list of its items (see pop)
        ("heapq.heappush(plate_heap, __x)", "plate_heap'", "{state} ++ [{x}]"),
    ],
    # heapq.heappop: the recorded answer says which item came out; refused unless it is a smallest one (heapq's contract)
    state_calls=[("heapq.heappop(plate_heap)", ["plate_heap'", "ds"], "pop plate_heap' ds", "bvec")],
    # Plate.merge: relabels the union in the parent, returns the merged plate
    effect_calls=[("__b.merge(__a)", "current_screen'", "snd (merge {b} {a} {state})", "fst (merge {b} {a} {state})", "bvec")],
    ignore=["logger.info(__a)"],
)

# create_plate_balanced_holdout_set_among_masked_plates (retrospective.py).  The float `fraction` is the exact rational
# num/den (Model/RetroHoldout.v); it occurs in the source only inside the three primitives below.
_COLS = ("treatment_names=__s.treatment_names[{i}], treatment_doses=__s.treatment_doses[{i}], observations=__s.observations[{i}], "
         "sample_names=__s.sample_names[{i}], plate_names=__s.plate_names[{i}], control_treatment_name=__s.control_treatment_name, "
         "observation_mask={m}, treatment_mapping=__s.treatment_mapping, sample_mapping=__s.sample_mapping")
C11_BALANCED_HOLDOUT = dict(
    file="src/batchie/retrospective.py", func="create_plate_balanced_holdout_set_among_masked_plates",
    out="SrcRetro.v", imports="Model.Encode Model.Screen Model.Retro Model.RetroHoldout", name="src_balanced_holdout",
    pyparams=["screen", "fraction", "rng"],
    params=[("num", "Z"), ("den", "positive"), ("counts", "opt list Z"), ("screen", "screen_t"), ("ds", "list draw")],
    returns="(screen_t * screen_t)", return_state=["ds"],
    vars={"selection_vector": "bvec", "plate": "bvec", "plate_indices": "list nat", "n_sample": "Z",
          "downsampled_indices": "list nat", "keep_screen": "screen_t", "holdout_screen": "screen_t"},
    prims=[
        ("fraction < 0", "num <? 0", "bool"),
        ("fraction > 1", "Zpos den <? num", "bool"),
        ("np.zeros(__s.size, dtype=bool)", "repeat false (length {s})", "bvec", {"s": "screen_t"}),
        ("__s.plates", "plates_of {s}", "list bvec", {"s": "screen_t"}),
        ("np.arange(__s.size)[__p.selection_vector]", "vec_indices {p}", "list nat", {"s": "screen_t", "p": "bvec"}),
        ("__p.is_observed", "vec_observed {p} screen'", "bool", {"p": "bvec"}),       # the plates' parent is `screen`
        ("__p.size", "plate_size {p}", "Z", {"p": "bvec"}),
        ("Screen(" + _COLS.format(i="~__v", m="__s.observation_mask[~__v]") + ")", "!screen_without {s} {v}", "screen_t",
         {"s": "screen_t", "v": "bvec"}),
        ("Screen(" + _COLS.format(i="__v", m="np.ones(np.count_nonzero(__v), dtype=bool)") + ")", "!screen_observed_of {s} {v}",
         "screen_t", {"s": "screen_t", "v": "bvec"}),
    ],
    state_calls=[
        ("math.ceil(__n * fraction)", ["counts"], "ceil_count {n} num den counts", "Z", {"n": "Z"}),
        ("rng.choice(__a, __n, replace=False)", ["ds"], "choose {a} {n} ds", "list nat", {"a": "list nat", "n": "Z"}),
    ],
    assign_effects=[("selection_vector[__i] = True", "selection_vector'", "set_true (length screen') {state} {i}")],
    raises=[("fraction must be between 0 and 1", 5)],
)

# MergeTopBottomPlateSmoother (retrospective.py): same conventions as MergeMin; no random / heap answers are consumed.
C13_MERGETB_SAMPLE_ID = dict(C13_MERGEMIN_SAMPLE_ID, cls="MergeTopBottomPlateSmoother", name="src_merge_tb_get_plate_sample_id")
C13_MERGETB = dict(
    file="src/batchie/retrospective.py", cls="MergeTopBottomPlateSmoother", func="_smooth_plates",
    out="SrcRetro.v", imports="Model.Encode Model.Screen Model.Retro", name="src_merge_tb_smooth_plates",
    pyparams=["self", "screen", "rng"], unused_params=["rng"],
    params=[("n_iter", "Z"), ("screen", "screen_t")],
    returns="screen_t",
    vars={"current_screen": "screen_t", "sample_id": "name", "i": "Z", "plates": "list bvec", "halfway": "Z",
          "smaller_plate": "bvec", "bigger_plate": "bvec"},
    eqb={"name": "name_eqb"},
    prims=[
        ("self.n_iterations", "n_iter", "Z"),
        ("__s.unique_sample_ids", "sample_names {s}", "list name", {"s": "screen_t"}),
        ("__s.plates", "plates_of {s}", "list bvec", {"s": "screen_t"}),
        ("self._get_plate_sample_id(__p)", "!src_merge_tb_get_plate_sample_id current_screen' {p}", "name", {"p": "bvec"}),
        ("math.floor(len(__l) / 2)", "zlen {l} / 2", "Z"),               # floor of the true quotient = integer quotient
        ("len(__l)", "zlen {l}", "Z"),
        ("sorted(__l, key=lambda x: x.size)", "sort_sz {l}", "list bvec"),   # stable sort by size
        ("zip(__a, __b)", "combine {a} {b}", "list (bvec * bvec)", {"a": "list bvec", "b": "list bvec"}),
        ("list(reversed(__l))", "rev {l}", "list bvec", {"l": "list bvec"}),
        ("__l[:__n]", "firstn (Z.to_nat {n}) {l}", "list bvec", {"l": "list bvec", "n": "Z"}),
    ],
    effects=[("__b.merge(__a)", "current_screen'", "snd (merge {b} {a} {state})")],   # Plate.merge relabels in the parent
    ignore=["logger.info(__a)"],
)

ALL = [C16_FILTER, C17_SAMPLE, C07_LOWER_TRI,
       C10_INIT, C10_N_THETAS, C10_GET, C10_ADD, C10_IS_COMPLETE, C10_COMBINE, C10_CONCAT, C10_LOAD, C10_SAVE,
       C06_SELECT, C06_SCORE_CHUNK, C16_SELECT, C06_ADD_SCORE, C06_COMBINE, C06_MIN_SCORE, C06_CONCAT,
       C11_GENERATE_PLATES, C11_SMOOTH_PLATES, C13_MERGEMIN_SAMPLE_ID, C13_MERGEMIN, C11_BALANCED_HOLDOUT,
       C13_MERGETB_SAMPLE_ID, C13_MERGETB]

# ---- C14: data.py ScreenSubset / Plate and the view-producing methods of ScreenBase / Screen (vocabulary: Model/Views.v) ----
# A Screen object is `pyscreen` = (identity tag, contents); a ScreenSubset / Plate object is a `view` = its two instance
# attributes (fields below).  Array types: `list bool` = an array of dtype bool, `anyarray` = an array of unknown dtype
# (dtype is bool, truth values), `own_bools` = a bool array the function itself created (`.copy()`), the only type the
# in-place store `a[idx] = vals` is declared for (so dropping the copy is refused), `list T` / `(arr2 T)` = 1-d / 2-d per-row arrays.
_C14 = dict(file="src/batchie/data.py", out="SrcViews.v", imports="Model.Encode Model.Screen Model.Views", overload=True)
_VIEW_FIELDS = {"screen": ("view", "pyscreen", "view_screen {obj}", "set_view_screen {obj} {val}"),
                "selection_vector": ("view", "list bool", "v_sel {obj}", "set_view_sel {obj} {val}")}
_BOOL_COERCE = [("list bool", "anyarray", "(true, {x})"), ("own_bools", "list bool", "{x}"), ("own_bools", "anyarray", "(true, {x})")]
_IS_BOOL = ("np.issubdtype(__a.dtype, bool)", "fst {a}", "bool", {"a": "anyarray"})
_SAME_LEN_ARG = ("selection_vector.size", "Z.of_nat (length (snd selection_vector'))", "Z")      # 1-d: size = number of elements
_IS_NOT = ("__a is not __b", "negb (same_object {a} {b})", "bool", {"a": "pyscreen", "b": "pyscreen"})    # identity of Screen objects
_NOT = ("~__a", "map negb {a}", "list bool", {"a": "list bool"})
_OR = ("__a | __b", "bor_vec {a} {b}", "list bool", {"a": "list bool", "b": "list bool"})
# ScreenSubset(s, v) / Plate(s, v): a new instance initialised by the translated ScreenSubset.__init__ (Plate defines none: `inherits`)
_new_view = lambda cls: ("%s(__s, __v)" % cls, "!src_view_init blank_view {s} {v}", "view", {"s": "pyscreen", "v": "anyarray"})
_PLATE_IS_SUBSET = [("Plate", "ScreenSubset", ["__init__"])]
_T1 = ("list Z", "list bool", "list name", "list (list Z)")
_T2 = ("(arr2 name)", "(arr2 Z)")
_MASKED = [("__a[__m]", "select {m} {a}", t, {"a": t, "m": "list bool"}) for t in _T1] \
    + [("__a[__m]", "select2 {m} {a}", t, {"a": t, "m": "list bool"}) for t in _T2]                     # a[mask]: the rows where mask is True
_COPIES = [("__a.copy()", "{a}", t, {"a": t}) for t in _T1 + _T2]                                       # a copy has the same value
_PS = {"s": "pyscreen"}
_SCREEN_ATTRS = [      # the per-row arrays of a Screen object (its properties return the stored arrays)
    ("__s.plate_ids", "s_pids (snd {s})", "list Z", _PS), ("__s.sample_ids", "s_sids (snd {s})", "list Z", _PS),
    ("__s.treatment_ids", "s_tids (snd {s})", "list (list Z)", _PS),
    ("__s.sample_names", "map r_sample (s_rows (snd {s}))", "list name", _PS),
    ("__s.plate_names", "map r_plate (s_rows (snd {s}))", "list name", _PS),
    ("__s.treatment_names", "screen_treatment_names (snd {s})", "(arr2 name)", _PS),
    ("__s.treatment_doses", "screen_treatment_doses (snd {s})", "(arr2 Z)", _PS),
    ("__s.observations", "map r_obs (s_rows (snd {s}))", "list Z", _PS),
    ("__s.observation_mask", "screen_mask (snd {s})", "list bool", _PS),
    ("__s.control_treatment_name", "s_ctrl (snd {s})", "name", _PS),
    ("__s.treatment_mapping", "s_tmap (snd {s})", "tmapping", _PS), ("__s.sample_mapping", "s_smap (snd {s})", "nmapping", _PS),
    ("__s.plate_mapping", "s_pmap (snd {s})", "nmapping", _PS),
]
_SHAPE0 = ("__a.shape[0]", "Z.of_nat (length {a})", "Z", {"a": "list (list Z)"})      # rows of a 2-d id array

C14_SCREEN_SIZE = dict(          # ScreenBase.size on a Screen object
    _C14, cls="ScreenBase", func="size", name="src_screen_size", pyparams=["self"],
    params=[("self", "pyscreen")], returns="Z", vars={}, prims=_SCREEN_ATTRS + [_SHAPE0])
C14_VIEW_INIT = dict(
    _C14, cls="ScreenSubset", func="__init__", name="src_view_init", pyparams=["self", "screen", "selection_vector"],
    params=[("self", "view"), ("screen", "pyscreen"), ("selection_vector", "anyarray")], returns="view", vars={},
    # storing an array as the selection vector stores its values (it is of dtype bool where the store stands)
    fields={"screen": _VIEW_FIELDS["screen"],
            "selection_vector": ("view", "anyarray", "(true, v_sel {obj})", "set_view_sel {obj} (snd {val})")},
    prims=[_IS_BOOL, ("__a.shape[0]", "Z.of_nat (length (snd {a}))", "Z", {"a": "anyarray"}),
           ("screen.size", "!src_screen_size screen'", "Z")],
    raises=[("selection_vector must be bool", 21), ("selection_vector must have same number of rows", 22)],
    implicit_return="{self}")


def _view_attr(func, ret):
    return dict(_C14, cls="ScreenSubset", func=func, name="src_view_" + func, pyparams=["self"], params=[("self", "view")],
                returns=ret, vars={}, fields=_VIEW_FIELDS, prims=_SCREEN_ATTRS + _MASKED)


C14_VIEW_ATTRS = [_view_attr(f, t) for f, t in [
    ("plate_ids", "list Z"), ("sample_ids", "list Z"), ("treatment_ids", "list (list Z)"), ("sample_names", "list name"),
    ("treatment_names", "(arr2 name)"), ("treatment_doses", "(arr2 Z)"), ("observations", "list Z"), ("observation_mask", "list bool"),
    ("control_treatment_name", "name"), ("treatment_mapping", "tmapping"), ("sample_mapping", "nmapping"), ("plate_mapping", "nmapping")]]
C14_VIEW_STE = dict(
    _C14, cls="ScreenSubset", func="single_treatment_effects", name="src_view_single_treatment_effects", pyparams=["self"],
    # ste = the value of the parent's computed property (None when it cannot be built); E = its row type
    params=[("E", "Type"), ("self", "view"), ("ste", "opt list E")], returns="opt list E", vars={}, fields=_VIEW_FIELDS,
    prims=[("__s.single_treatment_effects", "ste", "opt list E", _PS),
           ("__a[__m]", "select {m} {a}", "list E", {"a": "list E", "m": "list bool"})])
C14_VIEW_SIZE = dict(            # ScreenBase.size on a ScreenSubset object
    _C14, cls="ScreenBase", func="size", name="src_view_size", pyparams=["self"],
    params=[("self", "view")], returns="Z", vars={},
    prims=[("self.treatment_ids", "!src_view_treatment_ids self'", "list (list Z)"), _SHAPE0])
C14_VIEW_SUBSET = dict(
    _C14, cls="ScreenSubset", func="subset", name="src_view_subset", pyparams=["self", "selection_vector"],
    params=[("self", "view"), ("selection_vector", "anyarray")], returns="view",
    vars={"original_selection_vector": "own_bools", "indexes": "list nat"}, fields=_VIEW_FIELDS, coerce=_BOOL_COERCE,
    prims=[_IS_BOOL, _SAME_LEN_ARG, ("self.size", "!src_view_size self'", "Z"),
           ("__a.copy()", "{a}", "own_bools", {"a": "list bool"}),
           ("np.where(__a)[0]", "np_where {a}", "list nat", {"a": "list bool"}),
           _new_view("ScreenSubset")],
    # a[idx] = vals on an array the function owns: one write per index, in order
    stmt_prims=[("original_selection_vector[__i] = __v", "original_selection_vector",
                 "scatter original_selection_vector' {i} (snd {v})", "own_bools", {"i": "list nat", "v": "anyarray"})],
    raises=[("selection_vector must be bool", 21), ("selection_vector must have same length as dataset", 22)])
C14_VIEW_INVERT = dict(
    _C14, cls="ScreenSubset", func="invert", name="src_view_invert", pyparams=["self"], params=[("self", "view")], returns="view",
    vars={}, fields=_VIEW_FIELDS, coerce=_BOOL_COERCE, inherits=_PLATE_IS_SUBSET, prims=[_NOT, _new_view("Plate")])
C14_VIEW_COMBINE = dict(
    _C14, cls="ScreenSubset", func="combine", name="src_view_combine", pyparams=["self", "other"],
    params=[("self", "view"), ("other", "view")], returns="view", vars={}, fields=_VIEW_FIELDS, coerce=_BOOL_COERCE,
    inherits=_PLATE_IS_SUBSET, prims=[_IS_NOT, _OR, _new_view("Plate")],
    raises=[("Cannot combine two subsets of different datasets", 23)])
C14_VIEW_CONCAT = dict(
    _C14, cls="ScreenSubset", func="concat", name="src_view_concat", pyparams=["cls", "screen_subsets"], unused_params=["cls"],
    params=[("screen_subsets", "list view")], returns="view",
    vars={"selection_vector": "opt list bool", "screen_subset": "view"}, fields=_VIEW_FIELDS, inherits=_PLATE_IS_SUBSET,
    prims=[("len(__l)", "Z.of_nat (length {l})", "Z", {"l": "list view"}),
           ("__l[0]", "!list_get {l} (0)", "view", {"l": "list view"}), _IS_NOT, _OR,
           # the accumulated vector is an `|` of bool arrays (or one of them): dtype bool
           ("Plate(__s, __v)", "!src_view_init blank_view {s} (true, {v})", "view", {"s": "pyscreen", "v": "list bool"})],
    raises=[("Cannot concat empty list", 24), ("Cannot concat subsets of different screens", 23)])
C14_TO_SCREEN = dict(
    _C14, cls="ScreenSubset", func="to_screen", name="src_to_screen", pyparams=["self"], params=[("self", "view")],
    returns="screen", vars={}, fields=_VIEW_FIELDS,
    prims=_SCREEN_ATTRS + _MASKED + _COPIES + [
        # the constructor call with exactly these keyword arguments (any other set of keywords does not match)
        ("Screen(treatment_names=__tn, treatment_doses=__td, observations=__o, observation_mask=__m, sample_names=__sn, "
         "plate_names=__pn, control_treatment_name=__c)", "!screen_of_arrays {tn} {td} {o} {m} {sn} {pn} {c}", "screen",
         {"tn": "(arr2 name)", "td": "(arr2 Z)", "o": "list Z", "m": "list bool", "sn": "list name", "pn": "list name", "c": "name"})])
_SELF_MASK = ("self.observation_mask", "screen_mask (snd self')", "list bool")       # Screen.observation_mask: a bool array
_ANY = ("np.any(__a)", "existsb (fun b => b) {a}", "bool", {"a": "list bool"})
C14_SCREEN_SUBSET = dict(
    _C14, cls="Screen", func="subset", name="src_screen_subset", pyparams=["self", "selection_vector"],
    params=[("self", "pyscreen"), ("selection_vector", "anyarray")], returns="view", vars={}, coerce=_BOOL_COERCE,
    prims=[_IS_BOOL, _SAME_LEN_ARG, ("self.size", "!src_screen_size self'", "Z"), _new_view("ScreenSubset")],
    raises=[("selection_vector must be bool", 21), ("selection_vector must have same length as dataset", 22)])
_SELF_SUBSET = ("self.subset(__m)", "!src_screen_subset self' {m}", "view", {"m": "anyarray"})
C14_SUBSET_UNOBSERVED = dict(
    _C14, cls="Screen", func="subset_unobserved", name="src_subset_unobserved", pyparams=["self"], params=[("self", "pyscreen")],
    returns="opt view", vars={}, coerce=_BOOL_COERCE, prims=[_SELF_MASK, _NOT, _ANY, _SELF_SUBSET],
    implicit_return="None")        # falling off the end of the function returns None
C14_SUBSET_OBSERVED = dict(C14_SUBSET_UNOBSERVED, func="subset_observed", name="src_subset_observed")
C14_UNIQUE_PLATE_IDS = dict(
    _C14, cls="ScreenBase", func="unique_plate_ids", name="src_unique_plate_ids", pyparams=["self"], params=[("self", "pyscreen")],
    returns="list Z", vars={},
    prims=_SCREEN_ATTRS + [("np.unique(__a)", "sort_uniq Z.compare {a}", "list Z", {"a": "list Z"})])     # sorted distinct values
C14_GET_PLATE = dict(
    _C14, cls="Screen", func="get_plate", name="src_get_plate", pyparams=["self", "plate_id"],
    params=[("self", "pyscreen"), ("plate_id", "Z")], returns="view", vars={}, coerce=_BOOL_COERCE, inherits=_PLATE_IS_SUBSET,
    prims=_SCREEN_ATTRS + [("__a == __v", "map (fun x => x =? {v}) {a}", "list bool", {"a": "list Z", "v": "Z"}), _new_view("Plate")])
C14_PLATES = dict(
    _C14, cls="Screen", func="plates", name="src_plates", pyparams=["self"], params=[("self", "pyscreen")],
    returns="list view", vars={},
    prims=[("self.unique_plate_ids", "!src_unique_plate_ids self'", "list Z"),
           ("self.get_plate(__x)", "!src_get_plate self' {x}", "view", {"x": "Z"})])

C14_ALL = [C14_SCREEN_SIZE, C14_VIEW_INIT] + C14_VIEW_ATTRS + [
    C14_VIEW_STE, C14_VIEW_SIZE, C14_VIEW_SUBSET, C14_VIEW_INVERT, C14_VIEW_COMBINE, C14_VIEW_CONCAT, C14_TO_SCREEN,
    C14_SCREEN_SUBSET, C14_SUBSET_UNOBSERVED, C14_SUBSET_OBSERVED, C14_UNIQUE_PLATE_IDS, C14_GET_PLATE, C14_PLATES]
ALL += C14_ALL

# ---- C12 / C03: the reveal lifecycle (vocabulary: end of Model/Reveal.v) ----
# A Screen object is Screen.screen; its array attributes are the columns of its rows (one entry per experiment).
# Trusted per entry: one attribute read / one numpy call each.
_SCREEN_ATTRS = [
    ("screen.treatment_names", "col_tnames screen'", "names2d"),
    ("screen.treatment_doses", "col_tdoses screen'", "doses2d"),
    ("screen.observations", "col_obs screen'", "list Z"),                # float64 bit patterns
    ("screen.sample_names", "col_samples screen'", "list name"),
    ("screen.plate_names", "col_plates screen'", "list name"),
    ("screen.control_treatment_name", "s_ctrl screen'", "name"),
    ("screen.observation_mask", "col_mask screen'", "list bool"),
    ("screen.treatment_mapping", "attr_tmap screen'", "tmap_t"),        # (mapping, its id array has an integer dtype = true)
    ("screen.sample_mapping", "attr_smap screen'", "smap_t"),
    ("screen.plate_ids", "s_pids screen'", "list Z"),
    ("screen.size", "screen_size screen'", "Z"),
]
_NUMPY = [
    ("np.isin(__a, __l)", "np_isin {a} {l}", "list bool", {"a": "list Z", "l": "list Z"}),
    ("__a[__m]", "select {m} {a}", "list Z", {"a": "list Z", "m": "list bool"}),          # boolean-mask indexing
    ("__x == 0", "np_eq_zero {x}", "list bool", {"x": "list Z"}),                           # elementwise, on floats
    ("np.isnan(__x)", "np_isnan {x}", "list bool", {"x": "list Z"}),
    ("np.all(__b)", "np_all {b}", "bool", {"b": "list bool"}),
    ("np.any(__b)", "np_any {b}", "bool", {"b": "list bool"}),
    ("__a | __b", "np_or {a} {b}", "list bool", {"a": "list bool", "b": "list bool"}),
    ("np.zeros(__n, dtype=bool)", "np_full false {n}", "list bool", {"n": "Z"}),
    ("np.ones(__n, dtype=bool)", "np_full true {n}", "list bool", {"n": "Z"}),
]
# Screen(...): the model's constructor applied to the keyword arguments THE CALL SITE passes (py2gal kwcalls); a parameter
# that is not passed takes the default of Screen.__init__'s signature (None; control_treatment_name: "")
_SCREEN_CALL = {"Screen": (
    "!py_screen {treatment_names} {treatment_doses} {sample_names} {plate_names} {observations} {observation_mask} "
    "{control_treatment_name} {treatment_mapping} {sample_mapping}", "screen",
    [("treatment_names", "names2d", None), ("treatment_doses", "doses2d", None),
     ("sample_names", "list name", None), ("plate_names", "list name", None),
     ("observations", "opt list Z", "None"), ("observation_mask", "opt list bool", "None"),
     ("control_treatment_name", "opt name", "None"),
     ("treatment_mapping", "opt tmap_t", "None"), ("sample_mapping", "opt smap_t", "None")])}
_C12 = dict(file="src/batchie/retrospective.py", out="SrcReveal.v", imports="Model.Encode Model.Screen Model.Reveal",
            prims=_SCREEN_ATTRS + _NUMPY, kwcalls=_SCREEN_CALL)

C12_REVEAL = dict(
    _C12, func="reveal_plates", name="src_reveal_plates", pyparams=["screen", "plate_ids"],
    params=[("screen", "screen"), ("plate_ids", "list Z")], returns="screen",
    vars={"reveal_mask": "list bool", "revealed_values": "list Z", "plate_id": "Z"},
    # the per-plate zero guard (fix fx5): the loop over np.unique(screen.plate_ids[reveal_mask]); both raises carry the same message
    prims=_SCREEN_ATTRS + _NUMPY + [
        ("np.unique(__a)", "sort_uniq Z.compare {a}", "list Z", {"a": "list Z"}),              # sorted, duplicate-free
        ("screen.plate_ids == __p", "np_eq_Z (s_pids screen') {p}", "list bool", {"p": "Z"}),  # elementwise, on ints
    ],
    raises=[("All revealed observations were 0", 8), ("NaN found in revealed observations", 9)],
)
C12_MASK = dict(
    _C12, func="mask_screen", name="src_mask_screen", pyparams=["screen"],
    params=[("screen", "screen")], returns="screen", vars={},
)
C12_UNMASK = dict(
    _C12, func="unmask_screen", name="src_unmask_screen", pyparams=["screen"],
    params=[("screen", "screen")], returns="screen", vars={},
)

ALL += [C12_REVEAL, C12_MASK, C12_UNMASK]

# Screen.set_observed: `self` is the pair of the two arrays the method writes (no other attribute is assigned)
C12_SET_OBSERVED = dict(
    file="src/batchie/data.py", cls="Screen", func="set_observed", out="SrcReveal.v",
    imports="Model.Encode Model.Screen Model.Reveal", name="src_set_observed",
    pyparams=["self", "selection_mask", "observations"],
    attr_vars={"self._observations": "self_observations", "self._observation_mask": "self_observation_mask"},
    params=[("self_observations", "list Z"), ("self_observation_mask", "list bool"),
            ("selection_mask", "list bool"), ("observations", "list Z")],
    returns="(list Z * list bool)", vars={},
    # the dtype guards: a `list bool` IS a bool array, a list of float64 bit patterns IS a float array
    prims=[("np.issubdtype(selection_mask.dtype, bool)", "true", "bool"),
           ("np.issubdtype(observations.dtype, FloatingPointType)", "true", "bool")],
    raises=[("selection_mask must be bool", 12), ("observations must be float", 13)],
    mask_store={"array": "np_mask_assign {a} {m} {v}", "scalar": "np_mask_fill {a} {m} {v}"},
    implicit_return="({self_observations}, {self_observation_mask})",     # the two arrays when the method ends
)
ALL += [C12_SET_OBSERVED]

# Screen.__init__: the two runs of top-level statements that decide observations / observation_mask (py2gal body_slice).
# The rest of __init__ (shape and dtype checks of the other arrays, the id encoders = C01, the attribute stores) is not
# translated here.  pydefaults: the defaults _SCREEN_CALL gives to arguments a call site does not pass.
_INIT = dict(
    file="src/batchie/data.py", cls="Screen", func="__init__", out="SrcReveal.v", imports="Model.Encode Model.Screen Model.Reveal",
    pyparams=["self", "treatment_names", "treatment_doses", "sample_names", "plate_names", "observations", "observation_mask",
              "control_treatment_name", "treatment_mapping", "sample_mapping"],
    pydefaults=["None", "None", "''", "None", "None"],
)
C12_INIT_OBS = dict(
    _INIT, name="src_init_observations",
    body_slice=("if observations is None and observation_mask is not None:", "if observations is not None:"),
    live_vars=["n_experiment_dimension"],                      # = treatment_names.shape[0]
    params=[("observations", "opt list Z"), ("observation_mask", "opt list bool"), ("n_experiment_dimension", "Z")],
    returns="(list Z * list bool)",
    vars={"observations": "list Z", "observation_mask": "list bool"},     # what they are once defaulted
    narrow_none=True,
    prims=[("__a.shape != (__n,)", "negb (Z.of_nat (length {a}) =? {n})", "bool", {"a": "list Z", "n": "Z"}),
           ("np.issubdtype(observations.dtype, FloatingPointType)", "true", "bool"),      # bit patterns ARE floats
           ("np.ones((__n,), dtype=bool)", "np_full true {n}", "list bool", {"n": "Z"}),
           ("np.zeros((__n,), dtype=bool)", "np_full false {n}", "list bool", {"n": "Z"}),
           ("np.zeros((__n,), dtype=FloatingPointType)", "np_full 0 {n}", "list Z", {"n": "Z"})],     # +0.0 has bit pattern 0
    raises=[("observation_mask cannot be provided without observations", 7),
            ("Expected observations to have shape", 14), ("observations must be floats", 13)],
    implicit_return="({observations}, {observation_mask})",
)
C12_INIT_PLATES = dict(
    _INIT, name="src_init_plate_check",
    body_slice=("plate_names_unique = np.unique(plate_names)", "for plate_name in plate_names_unique:"),
    params=[("plate_names", "list name"), ("observation_mask", "list bool")],      # the mask as the first run left it
    returns="unit",
    vars={"plate_names_unique": "list name", "plate_name": "name", "plate_mask": "list bool"},
    prims=[("np.unique(__a)", "sort_uniq name_cmp {a}", "list name", {"a": "list name"}),       # sorted, duplicate-free
           ("plate_names == plate_name", "np_eq_name plate_names' plate_name'", "list bool"),
           ("__a[0]", "!list_get {a} 0", "bool", {"a": "list bool"}),                            # IndexError on an empty array
           ("__a[__m]", "select {m} {a}", "list bool", {"a": "list bool", "m": "list bool"}),
           ("__a == __b", "np_eq_bool {a} {b}", "list bool", {"a": "list bool", "b": "bool"}),
           ("np.all(__b)", "np_all {b}", "bool", {"b": "list bool"})],
    raises=[("has a mixture of observed and not observed outcomes", 2)],
    implicit_return="tt",
)
ALL += [C12_INIT_OBS, C12_INIT_PLATES]

# ---- C02: persistence of Screen and ExperimentSpace (data.py; vocabulary: end of Model/Persist.v) ----
# An HDF5 file is `h5raw`: its datasets and attributes by name.  Trusted per entry: ONE h5py call / attribute read /
# codec call each -
#   f.create_dataset(NAME, data=d[, compression="gzip"])  appends (NAME, d) to the datasets; an existing NAME raises
#   f.attrs[NAME] = v / f.attrs[NAME]                      set / read an attribute (KeyError when absent)
#   f[NAME][:]                                             the stored array (KeyError when absent)
#   encode_string_array / decode_string_array: translated themselves (C02_CODEC, per array rank); inside them
#       arr.size == 0, np.empty(arr.shape, dtype=...) (= arr where it has no element), np.char.encode / decode (the identity on
#       the strings of an array WITH elements; numpy answers an array without elements with a float64 array: an error)
#   .astype(str) on a string array: the identity on its values; the translator keeps str arrays (`name`) and bytes
#       arrays (`bname`) apart, so a missing codec call is refused
#   self.<attr> of a Screen: the column of its rows / its id array / its mapping as a tuple of aligned arrays;  m[i]: projection
# NAME is matched literally per dataset (table below): an unknown name has no primitive and stops the build.
_KIND = {"S2": ("(h5_2d bname)", "V_S2", "h5_read_s2"), "N2": ("(h5_2d Z)", "V_N2", "h5_read_n2"),
         "S1": ("list bname", "V_S1", "h5_read_s1"), "N1": ("list Z", "V_N1", "h5_read_n1"), "B1": ("list bool", "V_B1", "h5_read_b1")}
_SCREEN_DATASETS = [
    ("treatment_names", "S2"), ("treatment_doses", "N2"), ("treatment_ids", "N2"),
    ("treatment_mapping_names", "S1"), ("treatment_mapping_doses", "N1"), ("treatment_mapping_ids", "N1"),
    ("observations", "N1"), ("observation_mask", "B1"), ("sample_ids", "N1"), ("sample_names", "S1"),
    ("sample_mapping_names", "S1"), ("sample_mapping_ids", "N1"), ("plate_ids", "N1"), ("plate_names", "S1")]
_SPACE_DATASETS = [("treatment_names", "S1"), ("treatment_doses", "N1"), ("treatment_ids", "N1"), ("sample_names", "S1"), ("sample_ids", "N1")]
_TMAP_T, _SMAP_T = "(list name * list Z * list Z)", "(list name * list Z)"


def _h5_writes(table, extra):       # one effect per dataset name
    return [("f.create_dataset('%s', data=__d%s)" % (n, extra), "f'", "!h5_create {state} K_%s (%s {d})" % (n, _KIND[k][1])) for n, k in table]


def _h5_reads(table):               # one primitive per dataset name
    return [("__f['%s'][:]" % n, "!%s {f} K_%s" % (_KIND[k][2], n), _KIND[k][0], {"f": "h5raw"}) for n, k in table]


# encode_string_array / decode_string_array run the translated helpers (C02_CODEC below), per array rank
_CODEC = [("encode_string_array(__a)", "!src_encode_string_array_2d {a}", "(h5_2d bname)", {"a": "(h5_2d name)"}),
          ("encode_string_array(__a)", "!src_encode_string_array_1d {a}", "list bname", {"a": "list name"}),
          ("decode_string_array(__a)", "!src_decode_string_array_2d {a}", "(h5_2d name)", {"a": "(h5_2d bname)"}),
          ("decode_string_array(__a)", "!src_decode_string_array_1d {a}", "list name", {"a": "list bname"}),
          ("__a.astype(str)", "{a}", "list name", {"a": "list name"})]
_TUPLE_ITEMS = [("__m[0]", "fst (fst {m})", "list name", {"m": _TMAP_T}), ("__m[1]", "snd (fst {m})", "list Z", {"m": _TMAP_T}),
                ("__m[2]", "snd {m}", "list Z", {"m": _TMAP_T}),
                ("__m[0]", "fst {m}", "list name", {"m": _SMAP_T}), ("__m[1]", "snd {m}", "list Z", {"m": _SMAP_T})]
_SET_CTRL = [("f.attrs['control_treatment_name'] = __v", "f'", "h5_set_attr {state} K_control_treatment_name {v}")]
_GET_CTRL = ("__f.attrs['control_treatment_name']", "!h5_attr {f} K_control_treatment_name", "name", {"f": "h5raw"})
_C02 = dict(file="src/batchie/data.py", out="SrcPersist.v", imports="Model.Encode Model.Screen Model.Persist", overload=True)


def _codec_fn(func, rank, src_t, dst_t, call, empty):
    """the module-level helper `func` on an array of that rank: the `arr.size == 0` guard, np.empty, np.char.<codec>"""
    return dict(_C02, func=func, name="src_%s_%dd" % (func, rank), pyparams=["arr"], params=[("arr", src_t)], returns=dst_t, vars={},
                prims=[("arr.size == 0", "arr%d_empty arr'" % rank, "bool"),
                       (empty, "!np_empty_like%d arr'" % rank, dst_t),
                       (call, "!np_char_codec%d arr'" % rank, dst_t)])


C02_CODEC = [_codec_fn("encode_string_array", 1, "list name", "list bname", "np.char.encode(arr)", "np.empty(arr.shape, dtype='S1')"),
             _codec_fn("encode_string_array", 2, "(h5_2d name)", "(h5_2d bname)", "np.char.encode(arr)", "np.empty(arr.shape, dtype='S1')"),
             _codec_fn("decode_string_array", 1, "list bname", "list name", "np.char.decode(arr, 'utf-8')", "np.empty(arr.shape, dtype=str)"),
             _codec_fn("decode_string_array", 2, "(h5_2d bname)", "(h5_2d name)", "np.char.decode(arr, 'utf-8')", "np.empty(arr.shape, dtype=str)")]

C02_SCREEN_SAVE = dict(
    _C02, cls="Screen", func="save_h5", name="src_screen_save_h5", pyparams=["self", "fn"],
    params=[("self", "screen")], returns="h5raw",       # returns what has been written to `fn`
    vars={"f": "h5raw"},
    contexts=[("h5py.File(fn, 'w')", "h5_empty", "h5raw")],
    prims=_CODEC + _TUPLE_ITEMS + [
        ("self.treatment_names", "sc_tnames self'", "(h5_2d name)"), ("self.treatment_doses", "sc_tdoses self'", "(h5_2d Z)"),
        ("self.treatment_ids", "sc_tids self'", "(h5_2d Z)"),
        ("self.treatment_mapping", "tmap_cols (s_tmap self')", _TMAP_T), ("self.sample_mapping", "smap_cols (s_smap self')", _SMAP_T),
        ("self.observations", "sc_obs self'", "list Z"), ("self.observation_mask", "sc_mask self'", "list bool"),
        ("self.sample_ids", "s_sids self'", "list Z"), ("self.sample_names", "sc_snames self'", "list name"),
        ("self.plate_ids", "s_pids self'", "list Z"), ("self.plate_names", "sc_pnames self'", "list name"),
        ("self.control_treatment_name", "s_ctrl self'", "name")],
    effects=_h5_writes(_SCREEN_DATASETS, ", compression='gzip'"),
    assign_effects=_SET_CTRL,
    implicit_return="{f}",
)
# Screen(...): the model's constructor on arrays, applied to the keyword arguments THE CALL SITE passes (py2gal kwcalls);
# a parameter that is not passed takes the default of Screen.__init__'s signature (checked by C12's _INIT.pydefaults)
_SCREEN_ON_ARRAYS = {"Screen": (
    "!arrays_screen {treatment_names} {treatment_doses} {sample_names} {plate_names} {observations} {observation_mask} "
    "{control_treatment_name} {treatment_mapping} {sample_mapping}", "screen",
    [("treatment_names", "(h5_2d name)", None), ("treatment_doses", "(h5_2d Z)", None),
     ("sample_names", "list name", None), ("plate_names", "list name", None),
     ("observations", "opt list Z", "None"), ("observation_mask", "opt list bool", "None"),
     ("control_treatment_name", "opt name", "None"),
     ("treatment_mapping", "opt " + _TMAP_T, "None"), ("sample_mapping", "opt " + _SMAP_T, "None")])}
C02_SCREEN_LOAD = dict(
    _C02, cls="Screen", func="load_h5", name="src_screen_load_h5", pyparams=["path"],
    params=[("h5", "h5raw")], returns="screen",       # h5 = what the file at `path` holds
    vars={"f": "h5raw"},
    contexts=[("h5py.File(path, 'r')", "h5", "h5raw")], with_return=True,
    prims=_CODEC + _h5_reads(_SCREEN_DATASETS) + [_GET_CTRL],
    kwcalls=_SCREEN_ON_ARRAYS,
)
# ExperimentSpace(...) = cls(...) in its classmethods: stores its three arguments (no subclass in the tree)
_SPACE_ON_ARRAYS = {"cls": (
    "!arrays_space {treatment_mapping} {sample_mapping} {control_treatment_name}", "space",
    [("treatment_mapping", _TMAP_T, None), ("sample_mapping", _SMAP_T, None), ("control_treatment_name", "name", "[]")])}
C02_SPACE_FROM_SCREEN = dict(
    _C02, cls="ExperimentSpace", func="from_screen", name="src_space_from_screen", pyparams=["cls", "screen"],
    params=[("screen", "screen")], returns="space", vars={},
    prims=[("screen.treatment_mapping", "tmap_cols (s_tmap screen')", _TMAP_T),
           ("screen.sample_mapping", "smap_cols (s_smap screen')", _SMAP_T),
           ("screen.control_treatment_name", "s_ctrl screen'", "name")],
    kwcalls=_SPACE_ON_ARRAYS,
)
C02_SPACE_SAVE = dict(
    _C02, cls="ExperimentSpace", func="save_h5", name="src_space_save_h5", pyparams=["self", "path"],
    params=[("self", "space")], returns="h5raw", vars={"f": "h5raw"},
    contexts=[("h5py.File(path, 'w')", "h5_empty", "h5raw")],
    prims=_CODEC + _TUPLE_ITEMS + [
        ("self.treatment_mapping", "tmap_cols (sp_tmap self')", _TMAP_T), ("self.sample_mapping", "smap_cols (sp_smap self')", _SMAP_T),
        ("self.control_treatment_name", "sp_ctrl self'", "name")],
    effects=_h5_writes(_SPACE_DATASETS, ""),
    assign_effects=_SET_CTRL,
    implicit_return="{f}",
)
C02_SPACE_LOAD = dict(
    _C02, cls="ExperimentSpace", func="load_h5", name="src_space_load_h5", pyparams=["cls", "path"],
    params=[("h5", "h5raw")], returns="space",
    vars={"f": "h5raw", "treatment_mapping": _TMAP_T, "sample_mapping": _SMAP_T, "control_treatment_name": "name"},
    contexts=[("h5py.File(path, 'r')", "h5", "h5raw")],
    prims=_CODEC + _h5_reads(_SPACE_DATASETS) + [_GET_CTRL],
    kwcalls=_SPACE_ON_ARRAYS,
)
ALL += C02_CODEC + [C02_SCREEN_SAVE, C02_SCREEN_LOAD, C02_SPACE_FROM_SCREEN, C02_SPACE_SAVE, C02_SPACE_LOAD]
# ---- C05: scoring/gaussian_dbal.py (vocabulary: end of Model/Dbal.v) ----
# Float arrays are lists of lists of exact rationals (arr2 / arr3; arr3n with None = NaN), the plates dict is an
# insertion-ordered association list, a ScreenSubset is `pyplate` = (selection_vector, (means, variances)): what
# predict_mean_all / predict_variance_all return for it.  `draws` = the recorded rng.choice answers not yet consumed.
_ZIP_A2 = ("zip(__a, __b)", "combine {a} {b}", "list (arr2 * arr2)", {"a": "list arr2", "b": "list arr2"})
_SHAPE_NE = ("__a.shape != __b.shape", "shape_ne {a} {b}", "bool", {"a": "arr2", "b": "arr2"})
_PAD0 = ("pad_ragged_arrays_to_dense_array(__a, pad_value=0.0)", "!pad_means_py {a}", "arr3", {"a": "list arr2"})     # linked: C05_PAD
_PADN = ("pad_ragged_arrays_to_dense_array(__a, pad_value=np.nan)", "!pad_vars_py {a}", "arr3n", {"a": "list arr2"})  # linked: C05_PAD
C05_SCORE = dict(
    file="src/batchie/scoring/gaussian_dbal.py", cls="GaussianDBALScorer", func="score",
    out="SrcDbal.v", imports="Lib.Num Model.Dbal", name="src_score", overload=True,
    pyparams=["self", "plates", "distance_matrix", "samples", "rng", "progress_bar"],
    # D = distance_matrix.to_dense(); samples / rng / progress_bar occur only inside the primitives below
    params=[("orc", "oracle"), ("max_chunk", "Z"), ("plates", "dict pyplate"), ("D", "arr2"), ("draws", "list list Z")],
    returns="dict ext",
    vars={"n_subs": "Z", "plate_subgroups": "list list Z", "dense_distance_matrix": "arr2", "progress_bar": "tqdm_t",
          "result": "dict ext", "plate_subgroup": "list Z", "k": "Z", "current_plates": "list pyplate",
          "plate_subgroup_mask": "opt list bool", "plate": "pyplate", "per_plate_means": "list arr2",
          "per_plate_variances": "list arr2", "plate_predictions": "arr2", "plate_variances": "arr2",
          "padded_means": "arr3", "padded_variances": "arr3n", "vals": "list ext"},
    prims=[
        ("self.max_chunk", "max_chunk", "Z"),
        ("np.ceil(__a / __b)", "!np_ceil_div {a} {b}", "Z", {"a": "Z", "b": "Z"}),
        ("np.array_split(__l, __n)", "!np_array_split {l} {n}", "list list Z", {"l": "list Z", "n": "Z"}),
        ("list(__d.keys())", "map fst {d}", "list Z", {"d": "dict pyplate"}),
        ("distance_matrix.to_dense()", "D", "arr2"),
        ("tqdm.tqdm(total=len(__l), disable=not progress_bar)", "tt", "tqdm_t"),
        ("len(__l)", "Z.of_nat (length {l})", "Z"),
        ("__p.selection_vector", "pp_sel {p}", "list bool", {"p": "pyplate"}),
        ("__a | __b", "!np_or_vec {a} {b}", "list bool", {"a": "list bool", "b": "list bool"}),
        ("predict_mean_all(screen=__p, thetas=samples)", "pp_means {p}", "arr2", {"p": "pyplate"}),
        ("predict_variance_all(screen=__p, thetas=samples)", "pp_vars {p}", "arr2", {"p": "pyplate"}),
        _ZIP_A2, _SHAPE_NE, _PAD0, _PADN,
        ("zip(__a, __b)", "combine {a} {b}", "list (Z * ext)", {"a": "list Z", "b": "list ext"}),
        ("dict(__l)", "dict_of_pairs {l}", "dict ext", {"l": "list (Z * ext)"}),
    ],
    # the kernel with exactly these keyword arguments (distance_factor not passed = its default 1.0); it consumes one recorded draw
    state_calls=[("dbal_fast_gauss_scoring_vectorized(predictions=__p, variances=__v, distance_matrix=__d, rng=rng, "
                  "max_combos=self.max_triples)", ["draws"], "kernel_call orc {p} {v} {d} one_q draws", "list ext",
                  {"p": "arr3", "v": "arr3n", "d": "arr2"})],
    effects=[("result.update(__d)", "result'", "dict_update {state} {d}")],
    ignore=["progress_bar.update(__a)"],
    raises=[("plate_predictions and plate_variances must have the same shape", 24), ("plates to be scored", 28)],
)
ALL += [C05_SCORE]

# the call of the vectorized kernel with exactly the wrapper's own arguments handed on; idxs = the recorded answer of the one
# rng.choice call the kernel makes (its index-to-triple run is linked by C05_KERNEL_TRIPLES, its tensor expressions by the
# correspondence only)
_KERNEL = ("dbal_fast_gauss_scoring_vectorized(predictions=__p, variances=__v, distance_matrix=distance_matrix, rng=rng, "
           "max_combos=max_combos, distance_factor=distance_factor)",
           "!kernel_checked orc {p} {v} distance_matrix' distance_factor' idxs", "list ext", {"p": "arr3", "v": "arr3n"})
_C05_WRAP = dict(
    file="src/batchie/scoring/gaussian_dbal.py", out="SrcDbal.v", imports="Lib.Num Model.Dbal", overload=True,
    pyparams=["per_plate_predictions", "variances", "distance_matrix", "rng", "max_combos", "distance_factor"],
    pydefaults=["5000", "1.0"], returns="list ext",
)
C05_HETERO = dict(
    _C05_WRAP, func="dbal_fast_gaussian_scoring_heteroscedastic", name="src_hetero",
    params=[("orc", "oracle"), ("per_plate_predictions", "list arr2"), ("variances", "list arr2"), ("distance_matrix", "arr2"),
            ("distance_factor", "qc"), ("idxs", "list Z")],
    vars={"plate_predictions": "arr2", "plate_variances": "arr2", "padded_predictions": "arr3", "padded_variances": "arr3n"},
    prims=[_ZIP_A2, _SHAPE_NE, _PAD0, _PADN, _KERNEL],
    raises=[("plate_predictions and plate_variances must have the same shape", 24)],
)
C05_HOMO = dict(
    _C05_WRAP, func="dbal_fast_gaussian_scoring_homoscedastic", name="src_homo",
    params=[("orc", "oracle"), ("per_plate_predictions", "list arr2"), ("variances", "arr2"), ("distance_matrix", "arr2"),
            ("distance_factor", "qc"), ("idxs", "list Z")],
    vars={"plate_predictions": "arr2", "padded_predictions": "arr3", "variances_ragged_array": "list arr2", "idx": "Z",
          "plate_variances": "list qc", "n_thetas": "Z", "n_experiments": "Z", "padded_variances": "arr3n"},
    prims=[("len(__l)", "Z.of_nat (length {l})", "Z"),
           ("__a.shape[0]", "dim0 {a}", "Z", {"a": "arr2"}),
           ("__a.shape[1]", "dim1 {a}", "Z", {"a": "arr2"}),
           ("__a.shape[0]", "Z.of_nat (length {a})", "Z", {"a": "list qc"}),          # a 1-d array
           ("__a[__i]", "!list_get {a} {i}", "list qc", {"a": "arr2", "i": "Z"}),       # a row of a 2-d array
           ("__v[:, None] * np.ones((__n, __e))", "!np_col_times_ones {v} {n} {e}", "arr2", {"v": "list qc", "n": "Z", "e": "Z"}),
           _PAD0, _PADN, _KERNEL],
    raises=[("must have the same n_plates dimension", 25), ("must have the same n_thetas dimension", 26)],
)
# pad_ragged_arrays_to_dense_array for arrays of ANY element type A (floats; NaN is an element like any other)
C05_PAD = dict(
    file="src/batchie/scoring/gaussian_dbal.py", func="pad_ragged_arrays_to_dense_array", out="SrcDbal.v",
    imports="Lib.Num Model.Dbal", name="src_pad", pyparams=["arrays", "pad_value"], pydefaults=["0.0"],
    params=[("A", "Type"), ("arrays", "list list list A"), ("pad_value", "A")], returns="list list list A",
    vars={"max_sizes": "(Z * Z)", "result": "list list list A", "i": "Z", "array": "list list A"},
    prims=[("np.array(__a.shape)", "shape2z {a}", "(Z * Z)", {"a": "list list A"}),
           ("np.max(__l, axis=0)", "!np_max_axis0 {l}", "(Z * Z)", {"l": "list (Z * Z)"}),
           # pad_value * ones(shape): the constant array (x * 1.0 = x for every float, NaN included).  Its dtype is the common
           # result type of ALL the arrays and the pad value (repair fx2; before: the dtype of the FIRST array, which rounded the
           # other plates): every element type A of the model is held exactly, whichever plate stands first - pad_dtype in
           # Model/Dbal.v is the dtype-level reading of this expression.  The exact text is part of the pattern: an allocation
           # with any other dtype expression is refused (fail closed)
           ("__v * np.ones((len(__l), *__m), dtype=np.result_type(*__l, __v))", "np_full3 {v} (length {l}) {m}", "list list list A",
            {"v": "A", "m": "(Z * Z)"})],
    assign_effects=[("result[__i, :__a.shape[0], :__a.shape[1]] = __a", "result'", "set_block {state} {i} {a}")],
)
ALL += [C05_PAD, C05_HETERO, C05_HOMO]

# dbal_fast_gauss_scoring_vectorized: its two non-numeric runs of top-level statements (py2gal body_slice).  The tensor
# expressions between and after them (mask, nan_to_num, alpha ... logsumexp) are NOT translated: correspondence only.
_KERNEL_FN = dict(
    file="src/batchie/scoring/gaussian_dbal.py", func="dbal_fast_gauss_scoring_vectorized", out="SrcDbal.v",
    imports="Lib.Num Model.Dbal", overload=True,
    pyparams=["predictions", "variances", "distance_matrix", "rng", "max_combos", "distance_factor"], pydefaults=["5000", "1.0"],
)
C05_KERNEL_CHECKS = dict(
    _KERNEL_FN, name="src_kernel_checks",
    body_slice=("if variances.shape != predictions.shape:", "if distance_matrix.shape[0] != predictions.shape[1]:"),
    params=[("predictions", "arr3"), ("variances", "arr3n"), ("distance_matrix", "arr2")], returns="unit", vars={},
    prims=[("__a.shape != __b.shape", "shape3_ne {a} {b}", "bool", {"a": "arr3n", "b": "arr3"}),
           ("__a.shape[0]", "dim0 {a}", "Z", {"a": "arr2"}), ("__a.shape[1]", "dim1 {a}", "Z", {"a": "arr2"}),
           ("__a.shape[1]", "dim3_1 {a}", "Z", {"a": "arr3"})],
    raises=[("variances and predictions should have same shape", 20), ("dists must be square", 21),
            ("must have the same n_thetas dimension", 22)],
    implicit_return="tt",
)
C05_KERNEL_TRIPLES = dict(
    _KERNEL_FN, name="src_kernel_triples",
    body_slice=("n_plates, n_thetas, max_experiments_per_plate = predictions.shape", "idx3 = np.array(idx3)"),
    params=[("predictions", "arr3"), ("max_combos", "Z"), ("draws", "list list Z")],
    returns="((list Z * list Z * list Z) * list list Z)",
    vars={"n_plates": "Z", "n_thetas": "Z", "max_experiments_per_plate": "Z", "n_theta_combinations": "Z", "n_combos": "Z",
          "unpacked_indices": "list Z", "ind": "Z", "idx1": "list Z", "idx2": "list Z", "idx3": "list Z"},
    prims=[("predictions.shape", "shape3z predictions'", "(Z * Z * Z)"),
           ("comb(__n, 3, exact=True)", "comb3 {n}", "Z", {"n": "Z"}),
           ("min(__a, __b)", "Z.min {a} {b}", "Z", {"a": "Z", "b": "Z"}),
           ("get_combination_at_sorted_index(__i, __n, 3)", "!unrank3 {i} {n}", "(Z * Z * Z)", {"i": "Z", "n": "Z"}),
           ("zip(*__l)", "!unzip3 {l}", "(list Z * list Z * list Z)", {"l": "list (Z * Z * Z)"}),
           ("np.array(__a)", "{a}", "list Z", {"a": "list Z"})],          # a tuple of ints as an index array: the same values
    state_calls=[("rng.choice(__n, size=__k, replace=False)", ["draws"], "rng_choice {n} {k} draws", "list Z", {"n": "Z", "k": "Z"})],
    raises=[("Need at least 3 thetas to compute PDBAL", 23)],
    implicit_return="(({idx1}, {idx2}, {idx3}), draws)",      # the three index arrays and the recorded answers not yet consumed
)
ALL += [C05_KERNEL_CHECKS, C05_KERNEL_TRIPLES]
# ---- C09: the prediction code (vocabulary: end of Model/Predict.v) ----
# Arrays are typed by shape: vec = float (n,), mat = float (n, D), list Z = int (n,), idmat = int (n, arity); qnum = a float.
# Trusted per entry: one attribute read / numpy operator / numpy or scipy call each.  WHICH embedding is gathered with WHICH id
# column, what is multiplied / added / summed, the control zeroing, the viability branch, the arity dispatch come from the translation.
_C09 = dict(out="SrcPredict.v", imports="Generated.Consts Lib.Num Model.Predict", overload=True)
_C09_T, _C09_D = {"t": "sparse_theta"}, {"d": "pydata"}
_C09_THETA_ATTRS = [      # the dataclass fields of SparseDrugComboMCMCSample
    ("__t.W", "sW {t}", "mat", _C09_T), ("__t.W0", "sW0 {t}", "vec", _C09_T), ("__t.V2", "sV2 {t}", "mat", _C09_T),
    ("__t.V1", "sV1 {t}", "mat", _C09_T), ("__t.V0", "sV0 {t}", "vec", _C09_T), ("__t.alpha", "salpha {t}", "qnum", _C09_T),
    ("__t.precision", "sprec {t}", "qnum", _C09_T)]
_C09_DATA_ATTRS = [       # the two id arrays of a ScreenBase object; size / treatment_arity run their translations
    ("__d.sample_ids", "pd_sample_ids {d}", "list Z", _C09_D), ("__d.treatment_ids", "pd_treatment_ids {d}", "idmat", _C09_D),
    ("__d.treatment_arity", "!src_data_treatment_arity {d}", "Z", _C09_D), ("__d.size", "!src_data_size {d}", "Z", _C09_D)]
_C09_INDEX = [
    ("__a[:, __k]", "!np_col {a} {k}", "list Z", {"a": "idmat", "k": "Z"}),                     # a column of the 2-d id array
    ("__a[__i]", "!np_take {a} {i}", "mat", {"a": "mat", "i": "list Z"}),                        # fancy indexing: rows of a matrix
    ("__a[__i]", "!np_take {a} {i}", "vec", {"a": "vec", "i": "list Z"})]                        # ... entries of a vector
_C09_OPS = [              # numpy's elementwise operators on operands of equal shape, and float + vec
    ("__a + __b", "sadd {a} {b}", "vec", {"a": "qnum", "b": "vec"}),
    ("__a + __b", "vadd {a} {b}", "vec", {"a": "vec", "b": "vec"}),
    ("__a + __b", "madd {a} {b}", "mat", {"a": "mat", "b": "mat"}),
    ("__a * __b", "mmul {a} {b}", "mat", {"a": "mat", "b": "mat"}),
    ("np.sum(__x, -1)", "sum_last {x}", "vec", {"x": "mat"})]                                    # sum over the last axis
# copy_array_with_control_treatments_set_to_zero(a, ids) runs its translation, at rows (zero = a zero row) or numbers
_C09_COPY0 = [
    ("copy_array_with_control_treatments_set_to_zero(__a, __i)", "!src_copy_zero vec zrow {a} {i}", "mat", {"a": "mat", "i": "list Z"}),
    ("copy_array_with_control_treatments_set_to_zero(__a, __i)", "!src_copy_zero qnum zscal {a} {i}", "vec", {"a": "vec", "i": "list Z"})]
_C09_VIAB = [
    ("expit(__x)", "vexpit orc {x}", "vec", {"x": "vec"}),                                       # scipy.special.expit = the oracle, entrywise
    ("np.clip(__x, a_min=__lo, a_max=__hi)", "vclip {lo} {hi} {x}", "vec", {"x": "vec", "lo": "qnum", "hi": "qnum"}),
    ("0.01", "VIAB_LO", "qnum"), ("0.99", "VIAB_HI", "qnum")]                                    # the literals as exact rationals

# `arr` is an array whose axis-0 entries have any type A (numbers or rows); z = "the zeros of an entry's shape"
C09_COPY_ZERO = dict(
    _C09, file="src/batchie/common.py", func="copy_array_with_control_treatments_set_to_zero", name="src_copy_zero",
    pyparams=["arr", "treatment_array"],
    params=[("A", "Type"), ("z", "A -> A"), ("arr", "list A"), ("treatment_array", "list Z")], returns="list A",
    vars={"results": "list A"},
    prims=[("__a[__i, ...]", "!np_take {a} {i}", "list A", {"a": "list A", "i": "list Z"}),
           ("__a == __v", "np_eq_scalar {a} {v}", "list bool", {"a": "list Z", "v": "Z"}),
           ("CONTROL_SENTINEL_VALUE", "CONTROL_SENTINEL_VALUE", "Z")],          # Generated/Consts.v: re-read from common.py on every run
    assign_effects=[("results[__m, ...] = 0.0", "results'", "!np_mask_zero z {state} {m}")],
)
_C09_SIZE = dict(_C09, file="src/batchie/data.py", cls="ScreenBase", pyparams=["self"], params=[("self", "pydata")], returns="Z", vars={})
C09_DATA_SIZE = dict(_C09_SIZE, func="size", name="src_data_size",
                     prims=_C09_DATA_ATTRS[:2] + [("__a.shape[0]", "im_shape0 {a}", "Z", {"a": "idmat"})])
C09_DATA_ARITY = dict(_C09_SIZE, func="treatment_arity", name="src_data_treatment_arity",
                      prims=_C09_DATA_ATTRS[:2] + [("__a.shape[1]", "im_shape1 {a}", "Z", {"a": "idmat"})])
_C09_PREDICT = dict(
    _C09, file="src/batchie/models/sparse_combo.py", pyparams=["mcmc_sample", "data", "viability"],
    params=[("orc", "oracle"), ("mcmc_sample", "sparse_theta"), ("data", "pydata"), ("viability", "bool")], returns="vec",
    prims=_C09_THETA_ATTRS + _C09_DATA_ATTRS + _C09_INDEX + _C09_OPS + _C09_COPY0 + _C09_VIAB)
C09_PREDICT = dict(_C09_PREDICT, func="predict", name="src_predict",
                   vars={"interaction2": "vec", "interaction1": "vec", "intercept": "vec", "Mu": "vec"})
C09_PREDICT_SINGLE = dict(_C09_PREDICT, func="predict_single_drug", name="src_predict_single_drug",
                          vars={"interaction1": "vec", "intercept": "vec", "Mu": "vec"})
# the methods of the sample type: dispatch on the arity; predict(...) / predict_single_drug(...) run their translations
_C09_CALLS = [
    ("predict_single_drug(__t, __d, viability=__v)", "!src_predict_single_drug orc {t} {d} {v}", "vec",
     {"t": "sparse_theta", "d": "pydata", "v": "bool"}),
    ("predict(__t, __d, viability=__v)", "!src_predict orc {t} {d} {v}", "vec", {"t": "sparse_theta", "d": "pydata", "v": "bool"})]
_C09_METHOD = dict(
    _C09, file="src/batchie/models/sparse_combo.py", cls="SparseDrugComboMCMCSample", pyparams=["self", "data"],
    params=[("orc", "oracle"), ("self", "sparse_theta"), ("data", "pydata")], returns="vec", vars={},
    prims=_C09_THETA_ATTRS + _C09_DATA_ATTRS + _C09_CALLS,
    raises=[("SparseDrugCombo only supports 1 or 2 treatments", 2)])       # NotImplementedError = ERR_ARITY
C09_SP_VIABILITY = dict(_C09_METHOD, func="predict_viability", name="src_sp_predict_viability")
C09_SP_MEAN = dict(_C09_METHOD, func="predict_conditional_mean", name="src_sp_predict_conditional_mean")
_C09_VARIANCE = [
    ("1 / __p", "!py_recip {p}", "qnum", {"p": "qnum"}),                     # Python float division: ZeroDivisionError at 0.0
    ("np.repeat(__x, repeats=__n)", "np_repeat {x} {n}", "vec", {"x": "qnum", "n": "Z"})]
C09_SP_VARIANCE = dict(
    _C09_METHOD, func="predict_conditional_variance", name="src_sp_predict_conditional_variance",
    params=[("self", "sparse_theta"), ("data", "pydata")], vars={"v": "vec"},
    prims=_C09_THETA_ATTRS + _C09_DATA_ATTRS + _C09_VARIANCE)
# models/main.py predict_*_all / predict_*_avg.  `thetas` is the model's holder (declared n_thetas, stored samples); the three
# Theta methods are the parameter pm (kind -> sample -> data -> result): ANY implementation; the linking theorems take the one
# that dispatches to the translated methods above.
_C09_MAIN = dict(
    _C09, file="src/batchie/models/main.py", pyparams=["screen", "thetas"],
    params=[("pm", "kind -> theta -> pydata -> result vec"), ("screen", "pydata"), ("thetas", "holder")])
_C09_TH = {"t": "theta", "d": "pydata"}
_C09_MAIN_PRIMS = _C09_DATA_ATTRS + [
    ("__h.n_thetas", "Z.of_nat (h_n {h})", "Z", {"h": "holder"}),                              # the declared number of samples
    ("__h.get_theta(__i)", "!holder_get {h} {i}", "theta", {"h": "holder", "i": "Z"}),
    ("__t.predict_viability(__d)", "!pm KViab {t} {d}", "vec", _C09_TH),
    ("__t.predict_conditional_mean(__d)", "!pm KMean {t} {d}", "vec", _C09_TH),
    ("__t.predict_conditional_variance(__d)", "!pm KVar {t} {d}", "vec", _C09_TH),
    ("np.zeros((__n, __m), dtype=FloatingPointType)", "np_zeros2 {n} {m}", "mat", {"n": "Z", "m": "Z"}),
    ("np.zeros((__n,), dtype=FloatingPointType)", "np_zeros1 {n}", "vec", {"n": "Z"}),
    ("__a[__i, :]", "!np_row {a} {i}", "vec", {"a": "mat", "i": "Z"}),
    ("np.isnan(__x).any()", "vec_has_nan {x}", "bool", {"x": "vec"}),                          # no NaN over the rationals
    ("np.any(np.isnan(__x))", "vec_has_nan {x}", "bool", {"x": "vec"}),
    ("__x.size", "vec_size {x}", "Z", {"x": "vec"}),
    ("np.stack(__l, dtype=FloatingPointType)", "!np_stack {l}", "mat", {"l": "list vec"}),
    ("__a + __b", "vadd {a} {b}", "vec", {"a": "vec", "b": "vec"}),
    ("__x / __n", "!np_div_int {x} {n}", "vec", {"x": "vec", "n": "Z"}),
]
_C09_MAIN_RAISES = [("NaN predictions were created", 7), ("not the same size as the screen", 8)]
_C09_ALL_ROWS = dict(
    _C09_MAIN, returns="mat", vars={"result": "mat", "theta_index": "Z", "theta": "theta"}, prims=_C09_MAIN_PRIMS,
    assign_effects=[("result[__i, :] = __v", "result'", "!np_set_row {state} {i} {v}")], raises=_C09_MAIN_RAISES)
C09_VIABILITY_ALL = dict(_C09_ALL_ROWS, func="predict_viability_all", name="src_predict_viability_all")
C09_MEAN_ALL = dict(_C09_ALL_ROWS, func="predict_mean_all", name="src_predict_mean_all")
C09_VARIANCE_ALL = dict(
    _C09_MAIN, func="predict_variance_all", name="src_predict_variance_all", returns="mat",
    # `result` is one sample's variance vector inside the loop and the stacked matrix after it
    vars={"results": "list vec", "result": "vec | mat", "theta_index": "Z", "theta": "theta"},
    prims=_C09_MAIN_PRIMS, raises=_C09_MAIN_RAISES)
_C09_AVG = dict(_C09_MAIN, returns="vec", vars={"result": "vec", "sub_result": "vec", "theta_index": "Z", "theta": "theta"},
                prims=_C09_MAIN_PRIMS, raises=_C09_MAIN_RAISES)
C09_MEAN_AVG = dict(_C09_AVG, func="predict_mean_avg", name="src_predict_mean_avg")
C09_VIABILITY_AVG = dict(_C09_AVG, func="predict_viability_avg", name="src_predict_viability_avg")
# the methods of the interaction sample type (models/sparse_combo_interaction.py)
_C09_I = {"t": "inter_theta"}
_C09_INTER_ATTRS = [("__t.W", "iW {t}", "mat", _C09_I), ("__t.V2", "iV2 {t}", "mat", _C09_I), ("__t.precision", "iprec {t}", "qnum", _C09_I)]
_C09_INTER = dict(
    _C09, file="src/batchie/models/sparse_combo_interaction.py", cls="SparseDrugComboInteractionMCMCSample", pyparams=["self", "data"],
    params=[("orc", "oracle"), ("self", "inter_theta"), ("data", "pydata")], returns="vec",
    raises=[("SparseDrugComboInteraction only supports data sets with combinations of 2 treatments", 2)])     # ValueError = ERR_ARITY
C09_IN_MEAN = dict(
    _C09_INTER, func="predict_conditional_mean", name="src_in_predict_conditional_mean", vars={"interaction": "vec"},
    params=[("self", "inter_theta"), ("data", "pydata")],
    prims=_C09_INTER_ATTRS + _C09_DATA_ATTRS + _C09_INDEX + _C09_OPS + _C09_COPY0)
C09_IN_VIABILITY = dict(
    _C09_INTER, func="predict_viability", name="src_in_predict_viability",
    vars={"interaction": "vec", "single_effect": "vec", "viability": "vec", "c": "Z", "dd1": "Z", "dd2": "Z"},
    prims=_C09_INTER_ATTRS + _C09_DATA_ATTRS + _C09_INDEX + _C09_VIAB + [
        ("self.predict_conditional_mean(__d)", "!src_in_predict_conditional_mean self' {d}", "vec", _C09_D),     # runs its translation
        ("zip(__a, __b, __c)", "zip3 {a} {b} {c}", "list (Z * Z * Z)", {"a": "list Z", "b": "list Z", "c": "list Z"}),
        ("__t.single_effect_lookup[__c, __d]", "!lookup_key (ilookup {t}) {c} {d}", "qnum", {"t": "inter_theta", "c": "Z", "d": "Z"}),
        ("__a * __b", "qmul {a} {b}", "qnum", {"a": "qnum", "b": "qnum"}),
        ("np.clip(__x, a_min=__lo, a_max=__hi)", "vclip {lo} {hi} {x}", "vec", {"x": "list qnum", "lo": "qnum", "hi": "qnum"}),   # of a Python list of floats
        ("np.exp(__x)", "vexp orc {x}", "vec", {"x": "vec"}), ("np.log(__x)", "vlog orc {x}", "vec", {"x": "vec"}),
        ("__a + __b", "vadd {a} {b}", "vec", {"a": "vec", "b": "vec"})])
C09_IN_VARIANCE = dict(
    _C09_INTER, func="predict_conditional_variance", name="src_in_predict_conditional_variance",
    params=[("self", "inter_theta"), ("data", "pydata")], vars={"v": "vec"},
    prims=_C09_INTER_ATTRS + _C09_DATA_ATTRS + _C09_VARIANCE)       # `1.0 / p` is the pattern `1 / __p` (1 == 1.0)
C09_ALL = [C09_COPY_ZERO, C09_DATA_SIZE, C09_DATA_ARITY, C09_PREDICT, C09_PREDICT_SINGLE,
           C09_SP_VIABILITY, C09_SP_MEAN, C09_SP_VARIANCE, C09_IN_MEAN, C09_IN_VIABILITY, C09_IN_VARIANCE,
           C09_VIABILITY_ALL, C09_MEAN_ALL, C09_VARIANCE_ALL, C09_MEAN_AVG, C09_VIABILITY_AVG]
ALL += C09_ALL
# ---- C20: synergy.py calculate_synergy, data.py create_single_treatment_effect_map / _array (vocabulary: end of Model/Synergy.v) ----
# Arrays: 1-d int = `list Z`, 2-d int = the list of its rows with shape[1] = the explicit parameter `arity` (it is defined also
# for zero rows), bool arrays likewise, float arrays = lists of exact rationals.  The effect map is a `pairdict` (py2gal).
# Trusted per entry: one numpy / builtin call each; which of them raise (boolean mask of another length, `&` of other lengths,
# mean of nothing, the last column of no columns, np.array of ragged rows) is part of the entry.
_QC = "Qcanon.Qc"
_ZS, _ZM, _BS, _BM, _QS = "list Z", "list list Z", "list bool", "list list bool", "list " + _QC
_EMAP = "pairdict " + _QC
_C20_NUMPY = [
    ("CONTROL_SENTINEL_VALUE", "CONTROL_SENTINEL_VALUE", "Z"),                                   # Generated/Consts.v: read from common.py
    ("treatment_ids.shape[1]", "Z.of_nat arity", "Z"),
    ("__a.shape[0]", "Z.of_nat (length {a})", "Z"),                                              # first axis = number of rows
    ("len(__a)", "Z.of_nat (length {a})", "Z"),
    ("__a == __v", "np_eq2 {a} {v}", _BM, {"a": _ZM, "v": "Z"}),
    ("__a == __v", "np_eq1 {a} {v}", _BS, {"a": _ZS, "v": "Z"}),
    ("__a == __v", "{a} =? {v}", "bool", {"a": "Z", "v": "Z"}),
    ("__a != __v", "np_ne1 {a} {v}", _BS, {"a": _ZS, "v": "Z"}),
    ("__a != __v", "negb ({a} =? {v})", "bool", {"a": "Z", "v": "Z"}),
    ("np.sum(__m, axis=1)", "np_sum_rows {m}", _ZS, {"m": _BM}),
    ("~__m", "np_not {m}", _BS, {"m": _BS}),
    ("__a & __b", "!np_and {a} {b}", _BS, {"a": _BS, "b": _BS}),
    ("__a[__m, :]", "!np_select {m} {a}", _ZM, {"a": _ZM, "m": _BS}),
    ("__a[:, -1]", "!np_last_col arity {a}", _ZS, {"a": _ZM}),
    ("__a[__m]", "!np_select {m} {a}", _ZS, {"a": _ZS, "m": _BS}),
    ("__a[__m]", "!np_select {m} {a}", _QS, {"a": _QS, "m": _BS}),
    ("np.sort(__a, axis=1)", "np_sort_rows {a}", _ZM, {"a": _ZM}),
    ("np.unique(__a)", "sorted_unique {a}", _ZS, {"a": _ZS}),
    ("__a.flatten()", "concat {a}", _ZS, {"a": _ZM}),
    ("np.any(__m)", "np_any {m}", "bool", {"m": _BS}),
    ("np.mean(__x)", "!np_mean {x}", _QC, {"x": _QS}),
    ("np.prod(__x)", "qprod {x}", _QC, {"x": _QS}),                                             # of a Python list of floats; 1.0 for []
    ("zip(__a, __b, __c)", "zip3 {a} {b} {c}", "list (Z * list Z * %s)" % _QC, {"a": _ZS, "b": _ZM, "c": _QS}),
    ("zip(__a, __b)", "combine {a} {b}", "list (Z * list Z)", {"a": _ZS, "b": _ZM}),
    ("np.array(__l)", "!np_array_rows {l}", _ZM, {"l": _ZM}),
    ("np.array(__l)", "{l}", _ZS, {"l": _ZS}),
    ("np.array(__l)", "{l}", _QS, {"l": _QS}),
    ("np.ones_like(__a, dtype=float)", "np_ones_like {a}", "list list " + _QC, {"a": _ZM}),
]
_C20_SYN = dict(
    imports="Generated.Consts Model.Metrics Model.Synergy", out="SrcSynergy.v", overload=True, prims=_C20_NUMPY,
    arith={_QC: {"Sub": "Qcanon.Qcminus"}}, float_consts={"1.0": ("q_one", _QC)}, key_error=5, index_error=4,
    # create_single_treatment_effect_map(sample_ids=..., treatment_ids=..., observation=...) runs the translated function
    kwcalls={"create_single_treatment_effect_map": (
        "!src_create_single_treatment_effect_map arity {sample_ids} {treatment_ids} {observation}", _EMAP,
        [("sample_ids", _ZS, None), ("treatment_ids", _ZM, None), ("observation", _QS, None)])},
    ignore=["logger.warning(__a)"],
)
C20_EFFECT_MAP = dict(
    _C20_SYN, file="src/batchie/data.py", func="create_single_treatment_effect_map", name="src_create_single_treatment_effect_map",
    pyparams=["sample_ids", "treatment_ids", "observation"],
    params=[("arity", "nat"), ("sample_ids", _ZS), ("treatment_ids", _ZM), ("observation", _QS)], returns=_EMAP,
    vars={"single_treatment_mask": _BS, "single_treatment_observations": _QS, "single_treatment_treatments": _ZS,
          "single_treatment_sample_ids": _ZS, "result": _EMAP, "current_sample_id": "Z", "current_treatment_id": "Z",
          "mask": _BS, "single_effect": _QC},
    raises=[("Experiment must have more than one treatment to get single treatment effects", 1)],
)
C20_EFFECT_ARRAY = dict(
    _C20_SYN, file="src/batchie/data.py", func="create_single_treatment_effect_array", name="src_create_single_treatment_effect_array",
    pyparams=["sample_ids", "treatment_ids", "observation"],
    params=[("arity", "nat"), ("sample_ids", _ZS), ("treatment_ids", _ZM), ("observation", _QS)], returns="list list " + _QC,
    vars={"single_treatment_effect_map": _EMAP, "result": "list list " + _QC, "idx": "Z", "current_sample_id": "Z",
          "current_treatment_ids": _ZS, "treatment_idx": "Z", "current_treatment_id": "Z"},
)
C20_SYNERGY = dict(
    _C20_SYN, file="src/batchie/synergy.py", func="calculate_synergy", name="src_calculate_synergy",
    pyparams=["sample_ids", "treatment_ids", "observation", "strict"], pydefaults=["False"],
    params=[("arity", "nat"), ("sample_ids", _ZS), ("treatment_ids", _ZM), ("observation", _QS), ("strict", "bool")],
    returns="(list Z * list list Z * list %s)" % _QC,
    vars={"single_treatment_effect_map": _EMAP, "single_treatment_mask": _BS, "multi_treatment_observation": _QS,
          "multi_treatment_treatments": _ZM, "multi_treatment_sample_ids": _ZS, "result_synergy": _QS,
          "result_treatment_ids": _ZM, "result_sample_ids": _ZS, "idx": "Z", "current_sample_id": "Z",
          "current_treatment_ids": _ZS, "observation": _QC,        # the loop rebinds the parameter's name to the row's scalar
          "single_effects": _QS, "current_treatment_id": "Z", "synergy": _QC},
    raises=[("Experiment must have more than one treatment to calculate synergy", 1),
            ("Sample and treatment ids must be the same length", 1), ("Sample and observation ids must be the same length", 1),
            ("has no control for treatment", 1)],
)
ALL += [C20_EFFECT_MAP, C20_EFFECT_ARRAY, C20_SYNERGY]

# ---- C20: models/main.py ModelEvaluation.mse / mse_variance / inter_chain_mse_variance (vocabulary: end of Model/Metrics.v) ----
# A ModelEvaluation object is Metrics.evaluation (its four stored arrays); the properties predictions / observations / chain_ids
# are translated themselves (`return self._x`) and the methods call those translations.  predictions is (n_experiments x n_thetas)
# = the list of its rows; `ncols` is predictions.shape[1] (defined also for zero rows), needed by the column mask only.
_QM = "list list " + _QC
_EV_FIELDS = {"_predictions": ("evaluation", _QM, "ev_preds {obj}", "set_ev_preds {obj} {val}"),
              "_observations": ("evaluation", _QS, "ev_obs {obj}", "set_ev_obs {obj} {val}"),
              "_chain_ids": ("evaluation", _ZS, "ev_chains {obj}", "set_ev_chains {obj} {val}")}
_C20_EV = dict(file="src/batchie/models/main.py", cls="ModelEvaluation", out="SrcMetrics.v", imports="Model.Metrics",
               pyparams=["self"], params=[("self", "evaluation")], vars={}, overload=True)
C20_EV_PREDICTIONS = dict(_C20_EV, func="predictions", name="src_ev_predictions", returns=_QM, fields=_EV_FIELDS)
C20_EV_OBSERVATIONS = dict(_C20_EV, func="observations", name="src_ev_observations", returns=_QS, fields=_EV_FIELDS)
C20_EV_CHAIN_IDS = dict(_C20_EV, func="chain_ids", name="src_ev_chain_ids", returns=_ZS, fields=_EV_FIELDS)
_EV_NUMPY = [
    ("self.predictions", "!src_ev_predictions self'", _QM),        # the translated properties
    ("self.observations", "!src_ev_observations self'", _QS),
    ("self.chain_ids", "!src_ev_chain_ids self'", _ZS),
    ("__o[:, None]", "{o}", "colvec", {"o": _QS}),                  # the (n, 1) view of a 1-d array
    ("__p[:, __s]", "!np_select_cols ncols {s} {p}", _QM, {"p": _QM, "s": _BS}),
    ("__a - __c", "!np_sub_col {a} {c}", _QM, {"a": _QM, "c": "colvec"}),
    ("__x ** 2", "np_square2 {x}", _QM, {"x": _QM}),
    ("__x.mean()", "!np_mean_all {x}", _QC, {"x": _QM}),
    ("__x.mean(axis=1)", "!np_mean_rows {x}", _QS, {"x": _QM}),
    ("np.var(__x)", "!np_var {x}", _QC, {"x": _QS}),
    ("np.unique(__a)", "sorted_unique {a}", _ZS, {"a": _ZS}),
    ("__a == __v", "np_eq_scalar {a} {v}", _BS, {"a": _ZS, "v": "Z"}),
    ("np.array(__l)", "{l}", _QS, {"l": _QS}),                      # of a Python list of floats
]
C20_EV_MSE = dict(_C20_EV, func="mse", name="src_ev_mse", returns=_QC, prims=_EV_NUMPY)
C20_EV_MSE_VARIANCE = dict(_C20_EV, func="mse_variance", name="src_ev_mse_variance", returns=_QC, prims=_EV_NUMPY)
C20_EV_INTER_CHAIN = dict(
    _C20_EV, func="inter_chain_mse_variance", name="src_ev_inter_chain_mse_variance", returns=_QC, prims=_EV_NUMPY,
    params=[("ncols", "nat"), ("self", "evaluation")],
    vars={"mses": _QS, "chain_id": "Z", "selection_vector": _BS, "chain_mse": _QC})
ALL += [C20_EV_PREDICTIONS, C20_EV_OBSERVATIONS, C20_EV_CHAIN_IDS, C20_EV_MSE, C20_EV_MSE_VARIANCE, C20_EV_INTER_CHAIN]

# ---- C20: models/main.py combination_count / generate_full_combinatoric_space (vocabulary: end of Model/Corr.v) ----
# The screen is its treatment mapping `tm` (rows ((name, dose), id); names and doses are integers standing for the string
# and the float), its sample mapping `sm` (rows (name, id)) and its arity.  The returned Screen is (sample_ids, treatment_ids).
C20_COMBINATION_COUNT = dict(
    file="src/batchie/models/main.py", func="combination_count", out="SrcSpace.v", imports="Model.Metrics Model.Synergy Model.Corr",
    name="src_combination_count", pyparams=["n", "k"], params=[("n", "Z"), ("k", "Z")], returns="Z", vars={},
    prims=[("math.factorial(__n)", "!py_factorial {n}", "Z", {"n": "Z"})],
)
_PAIRS = "list (Z * Z)"
_CUBE = "list list (Z * Z)"
C20_SPACE = dict(
    file="src/batchie/models/main.py", func="generate_full_combinatoric_space", out="SrcSpace.v",
    imports="Model.Metrics Model.Synergy Model.Corr", name="src_generate_full_combinatoric_space", overload=True,
    pyparams=["sample_id", "screen"],
    params=[("tm", "tmap3"), ("sm", _PAIRS), ("arity", "nat"), ("sample_id", "Z")], returns="(list Z * list list Z)",
    vars={"all_treatments": _PAIRS, "combos": _CUBE, "treatment_names": _ZM, "treatment_doses": _ZM, "plate_names": "platecol",
          "sample_name": "Z", "sample_ids": _ZS},
    float_consts={"10000000.0": ("10000000", "Z")},          # int > float compares exactly
    prims=[
        ("screen.treatment_space_size", "Z.of_nat (length tm)", "Z"),          # len(self.treatment_mapping[0])
        ("screen.treatment_arity", "Z.of_nat arity", "Z"),
        ("combination_count(__n, __k)", "!src_combination_count {n} {k}", "Z", {"n": "Z", "k": "Z"}),     # the translated function
        ("screen.treatment_mapping[0]", "tm_names tm", _ZS), ("screen.treatment_mapping[1]", "tm_doses tm", _ZS),
        ("screen.sample_mapping[0]", "sm_names sm", _ZS), ("screen.sample_mapping[1]", "sm_ids sm", _ZS),
        ("screen.treatment_mapping", "tm", "tmap3"), ("screen.sample_mapping", "sm", _PAIRS),
        ("zip(__a, __b)", "combine {a} {b}", _PAIRS, {"a": _ZS, "b": _ZS}),
        ("combinations(__l, __k)", "!py_combinations {l} {k}", _CUBE, {"l": _PAIRS, "k": "Z"}),
        ("list(__l)", "{l}", _CUBE, {"l": _CUBE}),
        ("np.array(__l, dtype=object)", "{l}", _CUBE, {"l": _CUBE}),
        ("__c[:, :, 0]", "!cube_proj arity fst {c}", _ZM, {"c": _CUBE}),
        ("__c[:, :, 1]", "!cube_proj arity snd {c}", _ZM, {"c": _CUBE}),
        ("__c.shape[0]", "Z.of_nat (length {c})", "Z", {"c": _CUBE}),
        ("['1'] * __n", "Z.to_nat {n}", "platecol", {"n": "Z"}),
        ("[__x] * __n", "repeat {x} (Z.to_nat {n})", _ZS, {"x": "Z", "n": "Z"}),
        ("np.array(__l)", "{l}", "platecol", {"l": "platecol"}), ("np.array(__l)", "{l}", _ZS, {"l": _ZS}),
        ("dict(__p)", "dict_of_pairs {p}", "dict", {"p": _PAIRS}),
        ("__d[__k]", "!dict_read {d} {k}", "Z", {"d": "dict", "k": "Z"}),
        ("__a.astype(str)", "{a}", _ZM, {"a": _ZM}), ("__a.astype(str)", "{a}", _ZS, {"a": _ZS}),
        ("__a.astype(FloatingPointType)", "{a}", _ZM, {"a": _ZM}),
    ],
    kwcalls={"Screen": (
        "!space_screen {treatment_mapping} {sample_mapping} {treatment_names} {treatment_doses} {sample_names}", "(list Z * list list Z)",
        [("treatment_names", _ZM, None), ("treatment_doses", _ZM, None), ("sample_names", _ZS, None), ("plate_names", "platecol", None),
         ("sample_mapping", _PAIRS, None), ("treatment_mapping", "tmap3", None)])},
    raises=[("The treatment space is too large for this method", 1)],
)
ALL += [C20_COMBINATION_COUNT, C20_SPACE]

# ---- C20: models/main.py predict_viability_avg and retrospective.py calculate_mse (vocabulary: end of Model/Metrics.v) ----
# A theta is the prediction vector it gives on the screen at hand (`theta_t`), the ThetaHolder the list `per_theta` of them; the
# fully observed screen of calculate_mse is its observations (`obs_screen`), Screen.size their number.
C20_PREDICT_AVG = dict(
    file="src/batchie/models/main.py", func="predict_viability_avg", out="SrcMetrics.v", imports="Model.Metrics", overload=True,
    name="src_predict_viability_avg", pyparams=["screen", "thetas"], params=[("size", "nat"), ("per_theta", _QM)], returns=_QS,
    vars={"result": _QS, "theta_index": "Z", "theta": "theta_t", "sub_result": _QS},
    prims=[
        ("screen.size", "Z.of_nat size", "Z"),
        ("np.zeros((__n,), dtype=FloatingPointType)", "np_zeros1 {n}", _QS, {"n": "Z"}),
        ("thetas.n_thetas", "Z.of_nat (length per_theta)", "Z"),
        ("thetas.get_theta(__i)", "!list_get per_theta {i}", "theta_t", {"i": "Z"}),       # the i-th theta (C10: get_theta)
        ("__t.predict_viability(screen)", "{t}", _QS, {"t": "theta_t"}),
        ("np.isnan(__x)", "np_isnan1 {x}", _BS, {"x": _QS}),
        ("__m.any()", "np_any1 {m}", "bool", {"m": _BS}),
        ("__a + __b", "!np_add1 {a} {b}", _QS, {"a": _QS, "b": _QS}),
        ("__v / __n", "!np_div_int {v} {n}", _QS, {"v": _QS, "n": "Z"}),
    ],
    raises=[("NaN predictions were created", 1)],
)
C20_CALC_MSE = dict(
    file="src/batchie/retrospective.py", func="calculate_mse", out="SrcMetrics.v", imports="Model.Metrics", overload=True,
    name="src_calculate_mse", pyparams=["observed_screen", "thetas"], params=[("per_theta", _QM), ("obs", _QS)], returns=_QC,
    vars={"preds": _QS},
    prims=[
        ("observed_screen", "obs", "obs_screen"), ("thetas", "per_theta", _QM),
        ("__s.observations", "{s}", _QS, {"s": "obs_screen"}),
        ("__a - __b", "!np_sub1 {a} {b}", _QS, {"a": _QS, "b": _QS}),
        ("__x ** 2", "np_square1 {x}", _QS, {"x": _QS}),
        ("np.mean(__x)", "!np_mean1 {x}", _QC, {"x": _QS}),
    ],
    # predict_viability_avg(screen=..., thetas=...) runs the translated function; screen.size = the number of observations
    kwcalls={"predict_viability_avg": ("!src_predict_viability_avg (length {screen}) {thetas}", _QS,
                                       [("screen", "obs_screen", None), ("thetas", _QM, None)])},
)
ALL += [C20_PREDICT_AVG, C20_CALC_MSE]
# ModelEvaluation.mean_predictions (property): predictions.mean(axis=1)
C20_EV_MEAN_PREDICTIONS = dict(_C20_EV, func="mean_predictions", name="src_ev_mean_predictions", returns=_QS, prims=_EV_NUMPY)
ALL += [C20_EV_MEAN_PREDICTIONS]
# ModelEvaluation.__init__: the dtype guards are true of what the wire carries (floats, ints, strings); `ncols` = predictions.shape[1]
_EV_FIELDS4 = dict(_EV_FIELDS, _sample_names=("evaluation", "list list Z", "ev_names {obj}", "set_ev_names {obj} {val}"))
C20_EV_INIT = dict(
    _C20_EV, func="__init__", name="src_ev_init", pyparams=["self", "predictions", "observations", "chain_ids", "sample_names"],
    params=[("self", "evaluation"), ("ncols", "nat"), ("predictions", _QM), ("observations", _QS), ("chain_ids", _ZS),
            ("sample_names", "list list Z")],
    returns="evaluation", fields=_EV_FIELDS4, implicit_return="{self}",
    prims=[
        ("np.issubdtype(predictions.dtype, FloatingPointType)", "true", "bool"),
        ("np.issubdtype(observations.dtype, FloatingPointType)", "true", "bool"),
        ("np.issubdtype(chain_ids.dtype, int)", "true", "bool"),
        ("np.issubdtype(sample_names.dtype, str)", "true", "bool"),
        ("len(predictions.shape)", "ndim_of ncols predictions'", "Z"),
        ("predictions.shape[1]", "Z.of_nat ncols", "Z"),
        ("__a.shape[0]", "Z.of_nat (length {a})", "Z"),
    ],
    raises=[("predictions must be floats", 1), ("observations must be floats", 1), ("chain_ids must be ints", 1),
            ("sample_names must be str", 1), ("predictions and observations must have the same number of samples", 1),
            ("sample_names and observations must be the same size", 1), ("Predictions must be a matrix", 1),
            ("chain_ids must have one entry per theta", 1)],
)
ALL += [C20_EV_INIT]
# ---- C19: nextflow/scripts/batchie.py (vocabulary: end of Model/Orchestrate.v) ----
# A path the script holds is the model value it denotes: the output directory is the tree (fs), a globbed iteration
# directory is iter_path = (index, its plate directories), a globbed plate directory is plate_path = ((i, j), its files).
# Exceptions live in Orchestrate.sres (SNamed = a RuntimeError that names a job directory).
_SRES = dict(type="sres", bind="dos", ok="SOk", fold="sfold", unwrap="sunwrap", bind_quote="")
_C19 = dict(file="nextflow/scripts/batchie.py", out="SrcOrchestrate.v", imports="Model.Orchestrate", monad=_SRES, overload=True)
# the helper functions: a glob for one file name under a job directory (the <name> level is abstracted: at most one match)
_LEN0 = ("len(__l)", "Z.of_nat (length {l})", "Z")
_GLOB = "list(glob.glob(os.path.join(output_dir, '*', '%s')))"
C19_GET_SCREEN = dict(
    _C19, func="get_screen_from_job_output", name="src_get_screen_from_job_output", pyparams=["output_dir"],
    params=[("output_dir", "plate_path")], returns="opt spath",
    vars={"advanced_screen_glob": "list spath", "training_screen_glob": "list spath"},
    prims=[(_GLOB % "advanced_screen.h5", "glob_in_plate output_dir' KAdvanced", "list spath"),
           (_GLOB % "training.screen.h5", "glob_in_plate output_dir' KTraining", "list spath"),
           _LEN0, ("__l[0]", "!shead {l}", "spath", {"l": "list spath"})],
)
# validate_job_dir_and_return_meta since the repair of the torn-marker finding (an unreadable marker, or one that is not a dict with
# the key n_unobserved_plates, counts as no marker): the job directory is the list of marker files its glob matches (marker_dir),
# a file is the JSON document it holds or None (mfile), json.load answers that option - None = it raises ValueError, which
# is what the `except ValueError` of the source catches (try_except_classes) -, isinstance / `in` look at the document (jval)
C19_VALIDATE = dict(
    _C19, func="validate_job_dir_and_return_meta", name="src_validate_job_dir_and_return_meta", pyparams=["output_dir"],
    params=[("output_dir", "marker_dir")], returns="opt jval",
    # screen_metadata: first the list of matches, then the first match
    vars={"screen_metadata": "list mfile", "f": "mfile", "screen_metadata_obj": "opt jval"}, retype={"screen_metadata": ["mfile"]},
    contexts=[("open(screen_metadata, 'r')", "screen_metadata'", "mfile")],
    prims=[(_GLOB % "screen_metadata.json", "glob_meta_files output_dir'", "list mfile"),
           _LEN0, ("__l[0]", "!shead {l}", "mfile", {"l": "list mfile"}),
           ("isinstance(__o, dict)", "is_dict {o}", "bool", {"o": "opt jval"}),
           # a key test only on a dict; anything else raises in the model (the `or` of the source must guard it)
           ("'n_unobserved_plates' not in __o", "!lacks_nup {o}", "bool", {"o": "opt jval"})],
    try_prims=[("json.load(__f)", "SOk (json_load {f})", {"f": "mfile"}, "Some {x}", "jval")],
    try_except_classes=["ValueError"], short_circuit=True,
)
C19_GET_TEST_SCREEN = dict(
    _C19, func="get_test_screen_from_job_output", name="src_get_test_screen_from_job_output", pyparams=["output_dir"],
    params=[("output_dir", "job_path")], returns="opt spath", vars={"test_screen_glob": "list spath"},
    prims=[(_GLOB % "training.screen.h5", "glob_in_job output_dir' KTraining", "list spath"),
           _LEN0, ("__l[0]", "!shead {l}", "spath", {"l": "list spath"})],
)
C19_GET_THETAS = dict(
    _C19, func="get_theta_and_dist_chunks", name="src_get_theta_and_dist_chunks", pyparams=["output_dir"],
    params=[("done", "list action"), ("output_dir", "job_path")], returns="step",     # done: the actions of the call so far
    vars={"thetas": "list spath", "dist_chunks": "list spath"},
    prims=[(_GLOB % "thetas*.h5", "glob_in_job output_dir' KThetas", "list spath"),
           (_GLOB % "distance_matrix_chunk*.h5", "glob_in_job output_dir' KDist", "list spath"),
           _LEN0,
           # the answer: the two glob patterns under that directory = the directory
           ("{'thetas': os.path.join(output_dir, '*', 'thetas*.h5'), "
            "'dist_chunks': os.path.join(output_dir, '*', 'distance_matrix_chunk*.h5')}", "snd output_dir'", "step")],
    raises=[("No thetas or dist_chunks found", "SRaised done 2")],
)
C19_GET_SELECTED = dict(
    _C19, func="get_selected_plates", name="src_get_selected_plates", pyparams=["output_dir"],
    params=[("output_dir", "iter_job_path")], returns="opt list Z",
    vars={"plates": "list Z", "output": "list Z", "fn": "Z", "f": "Z"},      # a selected_plate file is the plate id it holds
    contexts=[("open(fn, 'r')", "fn'", "Z")],
    prims=[("list(glob.glob(os.path.join(output_dir, 'plate_*', '*', 'selected_plate')))", "glob_selected output_dir'", "list Z"),
           ("__f.read().strip()", "{f}", "Z", {"f": "Z"}), _LEN0],
)
C19_HELPERS = [C19_GET_SCREEN, C19_VALIDATE, C19_GET_TEST_SCREEN, C19_GET_THETAS, C19_GET_SELECTED]
_NAMES_DIR = ". Consider deleting this directory to continue simulation: {plate_dir}"      # the directory the message names
C19_EXAMINE = dict(
    _C19, func="examine_output_dir_to_determine_current_iteration", name="src_examine",
    # the output directory is the tree TOGETHER with the set of job directories whose marker file is unreadable (tfs)
    pyparams=["output_dir", "batch_size"], params=[("output_dir", "tfs"), ("batch_size", "Z")],
    returns="(Z * Z * opt jval * opt spath)",
    vars={"contents_of_output_directory": "list iter_path", "iter_dirs": "list iter_path", "iter_dir": "iter_path",
          "contents_of_iter_directory": "list plate_path", "plate_dirs": "list plate_path", "plate_dir": "plate_path",
          "last_successful_run_meta": "opt jval", "current_iter_index": "opt Z", "current_plate_idx": "opt Z",
          "idx": "Z", "plate_idx": "Z", "next_iter_index": "Z", "next_plate_index": "Z"},
    # plate_dir is read after the loops that bind it (only on paths where the inner loop ran: the linking proof shows the
    # default is never read)
    predefine={"plate_dir": "((0, 0), empty_pdir)"},
    prims=[
        ("glob.glob(output_dir + '/iter_*')", "glob_iters (fst output_dir')", "list iter_path"),
        ("glob.glob(__d + '/plate_*')", "glob_plates {d}", "list plate_path", {"d": "iter_path"}),
        ("os.path.isdir(__x)", "true", "bool", {"x": "iter_path"}),       # every entry of the model tree is a directory
        ("os.path.isdir(__x)", "true", "bool", {"x": "plate_path"}),
        ("sorted(__l, key=dir_sort_key)", "sort_by iter_index {l}", "list iter_path", {"l": "list iter_path"}),
        ("sorted(__l, key=dir_sort_key)", "sort_by plate_index {l}", "list plate_path", {"l": "list plate_path"}),
        ("dir_sort_key(__x)", "iter_index {x}", "Z", {"x": "iter_path"}),
        ("dir_sort_key(__x)", "plate_index {x}", "Z", {"x": "plate_path"}),
        # the callees are the translated functions (C19_VALIDATE, C19_GET_SCREEN); validate gets the marker files its glob finds
        # under that directory in this world (marker_dir_of: a torn one, the whole one of f_meta, or none)
        ("validate_job_dir_and_return_meta(__p)", "!src_validate_job_dir_and_return_meta (marker_dir_of (snd output_dir') {p})", "opt jval",
         {"p": "plate_path"}),
        ("get_screen_from_job_output(__p)", "!src_get_screen_from_job_output {p}", "opt spath", {"p": "plate_path"}),
    ],
    raises=[("Found job dir with invalid structure" + _NAMES_DIR, "SNamed 1 (fst {plate_dir})"),
            ("Found job dir with no apparent ancestor" + _NAMES_DIR, "SNamed 2 (fst {plate_dir})")],
)
ALL += C19_HELPERS + [C19_EXAMINE]

# run_next_retrospective_step / run_next_prospective_step.  `acts` (no variable of the source) is the list of file-system
# actions done so far; every read of the output directory reads `tree_after (fst output_dir') acts'`, the tree as it is then
# (examine, the one reader of marker files: `tfs_after output_dir' acts'`, tree and torn markers).
# A path built with os.path.join is the step (i, j) / the iteration index i it names.
_NOW = "(tree_after (fst output_dir') acts')"
_NOW_T = "(tfs_after output_dir' acts')"        # what examine reads: the tree and the torn markers as they are then
_STEP = dict(
    _C19, imports="Model.Orchestrate Generated.SrcOrchCmd", pyparams=["output_dir", "input_screen", "extra_args", "batch_size"],
    params=[("output_dir", "tfs"), ("input_screen", "spath"), ("extra_args", "eargs"), ("batch_size", "Z")],      # extra_args is only handed on
    returns="bool", return_state=["acts'"], predefine={"acts": "[]"}, tail_dup=True,
    vars={"acts": "list action", "experiment_name": "ename", "_": "ename",
          "current_iter_index": "Z", "current_plate_idx": "Z", "last_successful_run_meta": "opt jval", "current_screen": "opt spath",
          "plates_remaining": "Z", "job_output_dir": "step", "already_selected_plates": "opt list Z",
          "first_output_dir": "step", "test_screen": "opt spath", "first_plate_of_iter_output_dir": "step",
          "theta_and_dist_chunks": "step"},
    prims=[
        ("os.path.splitext(os.path.basename(input_screen))", "(tt, tt)", "(ename * ename)"),
        # the callee is the translated examine (C19_EXAMINE), run on the tree as it is now
        ("examine_output_dir_to_determine_current_iteration(output_dir, batch_size)", "!src_examine %s batch_size'" % _NOW_T,
         "(Z * Z * opt jval * opt spath)"),
        # the entry of the loaded document: KeyError / TypeError when it has none (jget_nup; proved unreachable)
        ("__m['n_unobserved_plates']", "!jget_nup {m}", "Z", {"m": "jval"}),
        ("os.path.join(output_dir, f'iter_{__i}', f'plate_{__j}')", "({i}, {j})", "step", {"i": "Z", "j": "Z"}),
        ("os.path.join(output_dir, f'iter_0', f'plate_0')", "(0, 0)", "step"),
        ("os.path.join(output_dir, f'iter_{__i}', 'plate_0')", "({i}, 0)", "step", {"i": "Z"}),
        # the callees are the translated functions (C19_GET_SELECTED, C19_GET_TEST_SCREEN, C19_GET_THETAS), on the tree as it is now
        ("get_selected_plates(os.path.join(output_dir, f'iter_{__i}'))", "!src_get_selected_plates (%s, {i})" % _NOW, "opt list Z", {"i": "Z"}),
        ("get_test_screen_from_job_output(__d)", "!src_get_test_screen_from_job_output (%s, {d})" % _NOW, "opt spath", {"d": "step"}),
        ("get_theta_and_dist_chunks(__d)", "!src_get_theta_and_dist_chunks acts' (%s, {d})" % _NOW, "step", {"d": "step"}),
        # the dict get_theta_and_dist_chunks returns is the directory it names; its two entries are the glob patterns under it
        ("__t['thetas']", "TGlob {t}", "tglob", {"t": "step"}),
        ("__t['dist_chunks']", "DGlob {t}", "dglob", {"t": "step"}),
    ],
    effects=[
        ("shutil.rmtree(job_output_dir, ignore_errors=True)", "acts'", "{state} ++ [ARmTree job_output_dir']"),
        # makedirs creates one directory per missing path component
        ("os.makedirs(job_output_dir, exist_ok=True)", "acts'", "{state} ++ [AMkIter (fst job_output_dir'); AMkPlate job_output_dir']"),
    ],
    # the callees are the TRANSLATED command builders (C19_RUN_* at the end of this file, Generated/SrcOrchCmd.v): which keyword
    # gets which value is read from the call site, every argument is coerced to the builder's parameter type (a screen path
    # that cannot be None becomes Some); Proofs/C19SourceCmd.v proves each builder equal to the launch it denotes
    typed_effects=[
        ("run_initial_plate(output_dir=__o, screen=__s, experiment_name=__n, extra_args=__e)",
         "acts'", "!src_run_initial_plate {state} {o} {s} {n} {e}", {"o": "step", "s": "opt spath", "n": "ename", "e": "eargs"}),
        ("run_first_batch_plate(output_dir=__o, training_screen=__t, test_screen=__s, experiment_name=__n, extra_args=__e)",
         "acts'", "!src_run_first_batch_plate {state} {o} {t} {s} {n} {e}",
         {"o": "step", "t": "opt spath", "s": "opt spath", "n": "ename", "e": "eargs"}),
        ("run_first_prospective_batch_plate(output_dir=__o, screen=__s, experiment_name=__n, extra_args=__e)",
         "acts'", "!src_run_first_prospective_batch_plate {state} {o} {s} {n} {e}",
         {"o": "step", "s": "opt spath", "n": "ename", "e": "eargs"}),
        ("run_subsequent_batch_plate(output_dir=__o, screen=__s, experiment_name=__n, extra_args=__e, thetas=__t, dist_chunks=__d, "
         "excludes=__x)", "acts'", "!src_run_subsequent_batch_plate {state} {o} {s} {t} {d} {n} {e} {x}",
         {"o": "step", "s": "opt spath", "n": "ename", "e": "eargs", "t": "tglob", "d": "dglob", "x": "opt list Z"}),
    ],
    # creation of the output directory itself is not modelled (Orchestrate.v header)
    ignore=["logger.info(__a)", "os.makedirs(output_dir, exist_ok=True)"],
    raises=[("Could not find test screen in {first_output_dir}", "SRaised {acts} 1")],
)
C19_RETRO = dict(_STEP, func="run_next_retrospective_step", name="src_run_next_retrospective_step")
C19_PROSP = dict(_STEP, func="run_next_prospective_step", name="src_run_next_prospective_step")
ALL += [C19_RETRO, C19_PROSP]
# ---- C18: the randomised steps as resumption programs (Model/RandProg.v).  The translator's monad is `rprog`
# (prog req ans (result T)): a primitive whose template contains a request is a call on the function's OWN generator argument
# `rng`; every other call must be one of the request-free primitives below or is refused - so a module-level numpy.random
# function, an argument-less default_rng(), or handing `rng` to another callee cannot be translated.
_C18 = dict(out="SrcRand.v", imports="Model.RandProg",
            monad=dict(type="rprog", bind="dop", ok="rp_ret", fold="rp_fold", unwrap="rp_unwrap", bind_quote=""))
_RNG_RANDOM = ("rng.random()", "!rp_random", "Z")                                       # the double as its order key
_RNG_CHOICE = ("rng.choice(__a, __n, replace=False)", "!rp_choice {a} {n}", "list Z", {"a": "list Z", "n": "Z"})
_RNG_CHOICE_N = ("rng.choice(__n, size=__k, replace=False)", "!rp_choice_n {n} {k}", "list Z", {"n": "Z", "k": "Z"})

# RandomScorer.score: `plates` is the dict's key list in iteration (= insertion) order; the Plate values are not read
C18_RANDOM_SCORER = dict(
    _C18, file="src/batchie/scoring/rand.py", cls="RandomScorer", func="score", name="src_random_scorer_score",
    pyparams=["self", "plates", "distance_matrix", "samples", "rng", "progress_bar"],
    unused_params=["self", "distance_matrix", "samples", "progress_bar"],
    params=[("plates", "list Z")], returns="dict", vars={"scores": "dict", "k": "Z"},
    effectful_dictcomp=True,
    prims=[("plates.keys()", "plates'", "list Z"), _RNG_RANDOM],
)

# The two hold-out splits.  The screen is an object of an ARBITRARY type Scr with a size (and plates); the two Screen(...)
# constructions are ARBITRARY request-free functions mk_keep / mk_hold of the screen and the selection vector (what they
# build is C11's business).  The float `fraction` is the exact rational num/den, den > 0 (it occurs only inside primitives).
_SCR = {"s": "Scr"}
_KEEP_COLS = ("treatment_names=__s.treatment_names[~__v], treatment_doses=__s.treatment_doses[~__v], observations=__s.observations[~__v], "
              "sample_names=__s.sample_names[~__v], plate_names=__s.plate_names[~__v], control_treatment_name=__s.control_treatment_name, "
              "observation_mask=__s.observation_mask[~__v], ")
_HOLD_COLS = ("treatment_names=__s.treatment_names[__v], treatment_doses=__s.treatment_doses[__v], observations=__s.observations[__v], "
              "sample_names=__s.sample_names[__v], plate_names=__s.plate_names[__v], control_treatment_name=__s.control_treatment_name, "
              "observation_mask=np.ones(np.count_nonzero(__v), dtype=bool), ")
_SV = {"s": "Scr", "v": "list bool"}
_HOLDOUT_PRIMS = [
    ("fraction < 0", "num <? 0", "bool"),
    ("fraction > 1", "den <? num", "bool"),
    ("np.zeros(__s.size, dtype=bool)", "mask_zeros (scr_size {s})", "list bool", _SCR),
    ("math.ceil(__n * fraction)", "ceil_frac {n} num den", "Z", {"n": "Z"}),      # over exact rationals (see harness/c18.py ASSUMPTIONS)
    _RNG_CHOICE,
]
_HOLDOUT = dict(
    _C18, file="src/batchie/retrospective.py", pyparams=["screen", "fraction", "rng"], returns="(Scr * Scr)", overload=True,
    typed_loop_vars=True,
    assign_effects=[("selection_vector[__i] = True", "selection_vector'", "!rp_lift (mask_set_true {state} {i})")],
    raises=[("fraction must be between 0 and 1", "rp_raise 5")],
)
C18_RANDOM_HOLDOUT = dict(
    _HOLDOUT, func="create_random_holdout", name="src_random_holdout",
    params=[("Scr", "Type"), ("scr_size", "Scr -> Z"), ("mk_keep", "Scr -> list bool -> result Scr"),
            ("mk_hold", "Scr -> list bool -> result Scr"), ("num", "Z"), ("den", "Z"), ("screen", "Scr")],
    vars={"selection_vector": "list bool", "indices": "list Z", "keep_screen": "Scr", "holdout_screen": "Scr"},
    prims=_HOLDOUT_PRIMS + [
        ("np.arange(__s.size)", "zrange (scr_size {s})", "list Z", _SCR),
        ("__s.size", "scr_size {s}", "Z", _SCR),
        ("Screen(" + _KEEP_COLS + "sample_mapping=__s.sample_mapping, treatment_mapping=__s.treatment_mapping)",
         "!rp_lift (mk_keep {s} {v})", "Scr", _SV),
        ("Screen(" + _HOLD_COLS + "sample_mapping=__s.sample_mapping, treatment_mapping=__s.treatment_mapping)",
         "!rp_lift (mk_hold {s} {v})", "Scr", _SV),
    ],
)
# a plate is (np.arange(screen.size)[plate.selection_vector], plate.is_observed): Model/RandProg.plate_t
_PL = {"p": "plate_t"}
C18_BALANCED_HOLDOUT = dict(
    _HOLDOUT, func="create_plate_balanced_holdout_set_among_masked_plates", name="src_balanced_holdout_prog",
    params=[("Scr", "Type"), ("scr_size", "Scr -> Z"), ("scr_plates", "Scr -> list plate_t"), ("mk_keep", "Scr -> list bool -> result Scr"),
            ("mk_hold", "Scr -> list bool -> result Scr"), ("num", "Z"), ("den", "Z"), ("screen", "Scr")],
    vars={"selection_vector": "list bool", "plate": "plate_t", "plate_indices": "list Z", "n_sample": "Z",
          "downsampled_indices": "list Z", "keep_screen": "Scr", "holdout_screen": "Scr"},
    prims=_HOLDOUT_PRIMS + [
        ("__s.plates", "scr_plates {s}", "list plate_t", _SCR),
        ("np.arange(__s.size)[__p.selection_vector]", "fst {p}", "list Z", {"s": "Scr", "p": "plate_t"}),
        ("__p.is_observed", "snd {p}", "bool", _PL),
        ("__p.size", "zlen (fst {p})", "Z", _PL),               # Plate.size = number of selected rows
        ("Screen(" + _KEEP_COLS + "treatment_mapping=__s.treatment_mapping, sample_mapping=__s.sample_mapping)",
         "!rp_lift (mk_keep {s} {v})", "Scr", _SV),
        ("Screen(" + _HOLD_COLS + "treatment_mapping=__s.treatment_mapping, sample_mapping=__s.sample_mapping)",
         "!rp_lift (mk_hold {s} {v})", "Scr", _SV),
    ],
)
# dbal_fast_gauss_scoring_vectorized: the run of statements that decides how many theta triples to use and draws them.
# (The rest of the function is float arithmetic on the drawn indices, C05's subject; it is not part of this link.)
C18_DBAL_SUBSAMPLE = dict(
    _C18, file="src/batchie/scoring/gaussian_dbal.py", func="dbal_fast_gauss_scoring_vectorized", name="src_dbal_subsample",
    pyparams=["predictions", "variances", "distance_matrix", "rng", "max_combos", "distance_factor"], pydefaults=["5000", "1.0"],
    body_slice=("n_theta_combinations = comb(n_thetas, 3, exact=True)",
                "unpacked_indices = rng.choice(n_theta_combinations, size=n_combos, replace=False)"),
    params=[("n_thetas", "Z"), ("max_combos", "Z")], live_vars=["n_thetas"], returns="list Z",
    implicit_return="{unpacked_indices}", int_truthiness=True,
    vars={"n_theta_combinations": "Z", "n_combos": "Z", "unpacked_indices": "list Z"},
    prims=[("comb(__n, 3, exact=True)", "binom3 {n}", "Z", {"n": "Z"}),       # scipy.special.comb, exact: C(n, 3), 0 below 3
           ("min(__a, __b)", "Z.min {a} {b}", "Z", {"a": "Z", "b": "Z"}),
           _RNG_CHOICE_N],
    raises=[("Need at least 3 thetas", "rp_raise 4")],
    # every identifier the REST of the function mentions: its own arguments and locals, numpy array functions, scipy's logsumexp,
    # C15's pure unranking kernel; NOT `rng`, nothing of numpy.random - a new name there is refused
    outside_names=["predictions", "variances", "distance_matrix", "distance_factor", "ValueError", ".format", ".shape", "np", ".isnan",
                   ".nan_to_num", "mask", "padded_variances", "n_plates", "n_thetas", "max_experiments_per_plate", "zip",
                   "get_combination_at_sorted_index", "ind", "unpacked_indices", "idx1", "idx2", "idx3", ".array", ".errstate", ".log",
                   "log_triple_dists", "alpha", "exp_factor", ".square", "log_norm_factor", ".sum", "d12", "d13", "d23", "ll",
                   "logsumexp", ".newaxis", "scores"],
)
ALL += [C18_RANDOM_SCORER, C18_RANDOM_HOLDOUT, C18_BALANCED_HOLDOUT, C18_DBAL_SUBSAMPLE]

# FixedSizeSmoother / OptimalSizeSmoother._smooth_plates: a plate is its boolean selection vector over the screen's rows;
# screen.subset(v).to_screen() is ANY request-free function mk_subset of the screen and the vector; OptimalSizeSmoother's three
# numpy statements that pick the size are ANY request-free function opt_size of the list of plate sizes (what they compute is C13's).
_VEC = {"p": "list bool"}
_SIZE_SMOOTH = dict(
    _C18, file="src/batchie/retrospective.py", func="_smooth_plates", pyparams=["self", "screen", "rng"], returns="Scr",
    typed_loop_vars=True, ignore=["logger.info(__a)"],
    vars={"results": "list list bool", "plate": "list bool", "new_indices": "list Z", "new_selection_vector": "list bool",
          "final_selection_vector": "list bool", "optimal_size": "Z"},
)
_SIZE_SMOOTH_PRIMS = [
    ("__s.plates", "scr_plates {s}", "list list bool", _SCR),
    ("__p.size", "count_true {p}", "Z", _VEC),
    ("__p.selection_vector", "{p}", "list bool", _VEC),
    ("np.arange(__s.size)[__p.selection_vector]", "positions_of (scr_size {s}) {p}", "list Z", {"s": "Scr", "p": "list bool"}),
    _RNG_CHOICE,
    ("np.isin(np.arange(__s.size), __i)", "mask_of (scr_size {s}) {i}", "list bool", {"s": "Scr", "i": "list Z"}),
    ("Plate(screen, __v)", "{v}", "list bool", {"v": "list bool"}),          # a plate of `screen` is its selection vector
    ("np.zeros(__s.size, dtype=bool)", "mask_zeros (scr_size {s})", "list bool", _SCR),
    ("__a | __b", "bor_mask {a} {b}", "list bool", {"a": "list bool", "b": "list bool"}),
    ("__s.subset(__v).to_screen()", "!rp_lift (mk_subset {s} {v})", "Scr", _SV),
]
C18_FIXED_SIZE = dict(
    _SIZE_SMOOTH, cls="FixedSizeSmoother", name="src_fixed_size_smooth",
    params=[("Scr", "Type"), ("scr_size", "Scr -> Z"), ("scr_plates", "Scr -> list (list bool)"),
            ("mk_subset", "Scr -> list bool -> result Scr"), ("plate_size", "Z"), ("screen", "Scr")],
    prims=[("self.plate_size", "plate_size", "Z")] + _SIZE_SMOOTH_PRIMS,
)
_OPTIMAL_RUN = """
plate_sizes = np.sort(np.array([plate.size for plate in screen.plates]))
i = np.argmax(plate_sizes * (len(plate_sizes) - np.arange(len(plate_sizes))))
optimal_size = plate_sizes[i]
"""
C18_OPTIMAL_SIZE = dict(
    _SIZE_SMOOTH, cls="OptimalSizeSmoother", name="src_optimal_size_smooth", unused_params=["self"],
    params=[("Scr", "Type"), ("scr_size", "Scr -> Z"), ("scr_plates", "Scr -> list (list bool)"),
            ("mk_subset", "Scr -> list bool -> result Scr"), ("opt_size", "list Z -> result Z"), ("screen", "Scr")],
    prims=_SIZE_SMOOTH_PRIMS,
    # [plate.size for plate in screen.plates] = map count_true (scr_plates screen); np.argmax of an empty array raises
    stmt_prims=[(_OPTIMAL_RUN, "optimal_size", "!rp_lift (opt_size (map count_true (scr_plates screen')))", "Z")], globals=["np", "len"],
)
ALL += [C18_FIXED_SIZE, C18_OPTIMAL_SIZE]

# PlatePermutationPlateGenerator._generate_plates: plate names are integers (ranks of the names); screen.subset(v).to_screen(),
# the Screen(...) construction with the new names and a.combine(b) are ANY request-free functions mk_subset / mk_renamed / mk_combine.
_SCREEN_RENAMED = ("Screen(treatment_names=__s.treatment_names, treatment_doses=__s.treatment_doses, observations=__s.observations, "
                   "sample_names=__s.sample_names, plate_names=__n, control_treatment_name=__s.control_treatment_name, "
                   "observation_mask=np.zeros(__s.size, dtype=bool))")
C18_PLATE_PERMUTATION = dict(
    _C18, file="src/batchie/retrospective.py", cls="PlatePermutationPlateGenerator", func="_generate_plates", name="src_plate_permutation",
    pyparams=["self", "screen", "rng"], returns="Scr", overload=True,
    params=[("Scr", "Type"), ("scr_size", "Scr -> Z"), ("scr_plate_names", "Scr -> list Z"), ("mk_subset", "Scr -> list bool -> result Scr"),
            ("mk_renamed", "Scr -> list Z -> result Scr"), ("mk_combine", "Scr -> Scr -> result Scr"), ("force", "opt list Z"), ("screen", "Scr")],
    vars={"selection_vector": "list bool", "to_permute": "Scr", "non_permuted": "opt Scr", "new_plate_names": "list Z", "permuted": "Scr"},
    prims=[
        ("self.force_include_plate_names", "force", "opt list Z"),
        ("~np.isin(__s.plate_names, __f)", "map (fun n__ => negb (memZ n__ {f})) (scr_plate_names {s})", "list bool", {"s": "Scr", "f": "list Z"}),
        ("np.ones(__s.size, dtype=bool)", "mask_ones (scr_size {s})", "list bool", _SCR),
        ("np.any(~__v)", "existsb negb {v}", "bool", {"v": "list bool"}),
        ("__s.subset(~__v).to_screen()", "!rp_lift (mk_subset {s} (map negb {v}))", "Scr", _SV),
        ("__s.subset(__v).to_screen()", "!rp_lift (mk_subset {s} {v})", "Scr", _SV),
        ("rng.permutation(__s.plate_names)", "!rp_permutation (scr_plate_names {s})", "list Z", _SCR),
        (_SCREEN_RENAMED, "!rp_lift (mk_renamed {s} {n})", "Scr", {"s": "Scr", "n": "list Z"}),
        ("__a.combine(__b)", "!rp_lift (mk_combine {a} {b})", "Scr", {"a": "Scr", "b": "Scr"}),
    ],
)
ALL += [C18_PLATE_PERMUTATION]

# SampleSegregatingPermutationPlateGenerator._generate_plates: scr_sample_ids s = screen.unique_sample_ids, scr_sample_rows s i =
# np.arange(s.size)[s.sample_ids == i]; a plate is the list of its row numbers; labels are plate numbers (-1 = "");
# the final Screen(...) is ANY request-free function mk_labelled of the screen and the label vector.
_SCREEN_LABELLED = ("Screen(treatment_names=__s.treatment_names.copy(), treatment_doses=__s.treatment_doses.copy(), "
                    "observations=__s.observations.copy(), sample_names=__s.sample_names.copy(), plate_names=__l.astype(str), "
                    "control_treatment_name=__s.control_treatment_name, observation_mask=__s.observation_mask.copy())")
C18_SAMPLE_SEGREGATING = dict(
    _C18, file="src/batchie/retrospective.py", cls="SampleSegregatingPermutationPlateGenerator", func="_generate_plates",
    name="src_sample_segregating", pyparams=["self", "screen", "rng"], returns="Scr", typed_loop_vars=True,
    params=[("Scr", "Type"), ("scr_size", "Scr -> Z"), ("scr_sample_ids", "Scr -> list Z"), ("scr_sample_rows", "Scr -> Z -> list Z"),
            ("mk_labelled", "Scr -> list Z -> result Scr"), ("max_plate_size", "Z"), ("screen", "Scr")],
    vars={"plate_indices": "list list Z", "sample_id": "Z", "sample_indices": "list Z", "n_plates": "Z", "plates": "list list Z",
          "plate": "list Z", "plate_names": "list Z", "idx": "Z", "indices": "list Z"},
    ignore=["logger.info(__a)"],
    prims=[
        ("self.max_plate_size", "max_plate_size", "Z"),
        ("__s.unique_sample_ids", "scr_sample_ids {s}", "list Z", _SCR),
        ("np.arange(__s.size)[__s.sample_ids == __i]", "scr_sample_rows {s} {i}", "list Z", {"s": "Scr", "i": "Z"}),
        ("math.ceil(len(__a) / float(__b))", "!rp_lift (ceil_div_float (zlen {a}) {b})", "Z", {"a": "list Z", "b": "Z"}),
        ("len(__a)", "zlen {a}", "Z", {"a": "list Z"}),
        ("rng.permutation(__a)", "!rp_permutation {a}", "list Z", {"a": "list Z"}),
        ("np.array_split(__a, __n)", "!rp_lift (array_split_z {a} {n})", "list list Z", {"a": "list Z", "n": "Z"}),
        ("np.array([''] * __s.size, dtype=object)", "labels_blank (scr_size {s})", "list Z", _SCR),
        (_SCREEN_LABELLED, "!rp_lift (mk_labelled {s} {l})", "Scr", {"s": "Scr", "l": "list Z"}),
    ],
    assign_effects=[("plate_names[__i] = f'generated_plate_{__k}'", "plate_names'", "!rp_lift (label_set {state} {i} {k})")],
)
ALL += [C18_SAMPLE_SEGREGATING]
# ---- C04: what the sparse-combo models are trained on (vocabulary: Model/Train.v, its last part) ----
# `data` (a ScreenBase) is the list of its rows at id level (Train.trow); each 1-d array attribute is that column of the
# rows.  Observations are Train.oval (exact rational | NaN | +-inf).  The wrapped legacy sampler object is Train.legacy
# (its four Python lists and three defaultdict(list) index dictionaries).  Trusted per entry: one attribute read / one
# numpy / scipy call each; float32 rounding and logit on (0,1) are the parameters r32 / orc of the model.
_C04 = dict(out="SrcTrain.v", imports="Lib.Num Generated.Consts Model.Train", typed_targets=True)
_C04_ROWS = [
    ("data.observations", "map t_obs data'", "list oval"),
    ("data.treatment_ids", "map t_treats data'", "list (list Z)"),
    ("data.sample_ids", "map t_sample data'", "list Z"),
    ("data.observation_mask", "map t_mask data'", "list bool"),
]
_C04_NUMPY = [
    ("__b.all()", "all_true {b}", "bool", {"b": "list bool"}),
    ("__b.any()", "any_true {b}", "bool", {"b": "list bool"}),
    ("__a >= 0.0", "map o_nonneg {a}", "list bool", {"a": "list oval"}),                   # elementwise; NaN >= 0 is False
    ("__a.astype(np.float32)", "map (cast32 r32) {a}", "list oval", {"a": "list oval"}),
    ("logit(__a)", "map (ologit orc) {a}", "list oval", {"a": "list oval"}),              # scipy.special.logit, elementwise
    ("np.isnan(__a)", "map o_isnan {a}", "list bool", {"a": "list oval"}),
]

# BayesianModel.add_observations, for ANY model class: `inner` is the abstract method self._add_observations
C04_ADD_OBSERVATIONS = dict(
    _C04, file="src/batchie/core.py", cls="BayesianModel", func="add_observations", name="src_add_observations",
    pyparams=["self", "data"],
    params=[("S", "Type"), ("inner", "S -> list trow -> result S"), ("self", "S"), ("data", "list trow")],
    returns="S", vars={},
    prims=_C04_ROWS + _C04_NUMPY,
    effects=[("self._add_observations(__d)", "self'", "!inner {state} {d}")],
    raises=[("Cannot add data with masked observations", 1)],
    implicit_return="{self}",       # the method mutates self: it denotes the new self
)

# LegacySparseDrugComboImpl / LegacySparseDrugComboInteractionImpl: n_obs and _update (the same text in both classes)
_LEGACY_FIELDS = {
    "y": ("legacy", "list oval", "lg_y {obj}", "set_lg_y {obj} {val}"),
    "cline": ("legacy", "list Z", "lg_cline {obj}", "set_lg_cline {obj} {val}"),
    "dd1": ("legacy", "list Z", "lg_dd1 {obj}", "set_lg_dd1 {obj} {val}"),
    "dd2": ("legacy", "list Z", "lg_dd2 {obj}", "set_lg_dd2 {obj} {val}"),
    "cline_idxs": ("legacy", "dict list Z", "lg_cline_idxs {obj}", "set_lg_cline_idxs {obj} {val}"),
    "dd1_idxs": ("legacy", "dict list Z", "lg_dd1_idxs {obj}", "set_lg_dd1_idxs {obj} {val}"),
    "dd2_idxs": ("legacy", "dict list Z", "lg_dd2_idxs {obj}", "set_lg_dd2_idxs {obj} {val}"),
}


def _legacy(file, cls, tag):
    n_obs = dict(_C04, file=file, cls=cls, func="n_obs", name="src_%s_n_obs" % tag, pyparams=["self"],
                 params=[("self", "legacy")], returns="Z", vars={}, fields=_LEGACY_FIELDS,
                 prims=[("len(__l)", "Z.of_nat (length {l})", "Z")])
    update = dict(_C04, file=file, cls=cls, func="_update", name="src_%s_update" % tag,
                  pyparams=["self", "y", "cl", "dd1", "dd2"],
                  params=[("self", "legacy"), ("y", "oval"), ("cl", "Z"), ("dd1", "Z"), ("dd2", "Z")],
                  returns="legacy", vars={"n": "Z"}, fields=_LEGACY_FIELDS,
                  defaultdict_list=["cline_idxs", "dd1_idxs", "dd2_idxs"],      # created as defaultdict(list) in __init__
                  prims=[("self.n_obs()", "!src_%s_n_obs self'" % tag, "Z")],   # runs the translated n_obs
                  implicit_return="{self}")
    return [n_obs, update]


C04_LEGACY = _legacy("src/batchie/models/sparse_combo.py", "LegacySparseDrugComboImpl", "legacy")
C04_LEGACY_INT = _legacy("src/batchie/models/sparse_combo_interaction.py", "LegacySparseDrugComboInteractionImpl", "legacy_int")

# SparseDrugCombo._add_observations; self.wrapped_model._update(...) runs the translated _update
C04_SDC_ADD = dict(
    _C04, file="src/batchie/models/sparse_combo.py", cls="SparseDrugCombo", func="_add_observations",
    name="src_sdc_add_observations", pyparams=["self", "data"],
    attr_vars={"self.wrapped_model": "wrapped_model"},
    params=[("orc", "oracle"), ("r32", "cast_fn"), ("wrapped_model", "legacy"), ("data", "list trow")],
    returns="legacy",
    vars={"observations_transformed": "list oval", "y": "oval", "dd": "list Z", "cl": "Z", "mask": "bool"},
    float_literals=("q_of_pair ({n}, {d})", "Qc"),      # the clip bounds, read from the call
    prims=_C04_ROWS + _C04_NUMPY + [
        ("np.clip(__a, a_min=__lo, a_max=__hi)", "map (oclip_at {lo} {hi}) {a}", "list oval", {"a": "list oval", "lo": "Qc", "hi": "Qc"}),
        ("zip(__a, __b, __c, __d)", "zip4 {a} {b} {c} {d}", "list (oval * list Z * Z * bool)",
         {"a": "list oval", "b": "list (list Z)", "c": "list Z", "d": "list bool"}),
        ("__l[__i]", "!id_at {l} {i}", "Z", {"l": "list Z", "i": "Z"}),          # dd[0], dd[1]: IndexError = tag 4
    ],
    effects=[("wrapped_model._update(y=__y, cl=__c, dd1=__a, dd2=__b)", "wrapped_model'", "!src_legacy_update {state} {y} {c} {a} {b}")],
    raises=[("Observations should be non-negative", 2), ("NaNs in observations", 3)],
    implicit_return="{wrapped_model}",
)

ALL += [C04_ADD_OBSERVATIONS] + C04_LEGACY + C04_LEGACY_INT + [C04_SDC_ADD]

# create_single_treatment_effect_map (data.py), generic in the observation type O (C04: Train.oval with one = 1.0 and
# mean = np.mean): treatment_ids is (arity = shape[1], list of rows); the result dict keyed by (sample id, treatment id)
# is an insertion-ordered association list
_LK = "list ((Z * Z) * O)"
_MASK_SELECT = [("__a[__m]", "select {m} {a}", t, {"a": t, "m": "list bool"}) for t in ("list O", "list Z", "list bool")]
C04_SINGLE_EFFECT_MAP = dict(
    _C04, imports="Lib.Num Generated.Consts Model.Encode Model.Train",
    file="src/batchie/data.py", func="create_single_treatment_effect_map", name="src_create_single_treatment_effect_map",
    pyparams=["sample_ids", "treatment_ids", "observation"],
    params=[("O", "Type"), ("one", "O"), ("mean", "list O -> O"), ("arity", "nat"),
            ("sample_ids", "list Z"), ("treatment_ids", "list (list Z)"), ("observation", "list O")],
    returns=_LK,
    vars={"single_treatment_mask": "list bool", "single_treatment_observations": "list O",
          "single_treatment_treatments": "list Z", "single_treatment_sample_ids": "list Z", "result": _LK,
          "current_sample_id": "Z", "current_treatment_id": "Z", "mask": "list bool", "single_effect": "O"},
    overload=True,
    prims=[
        ("treatment_ids.shape[1]", "Z.of_nat arity", "Z"),
        ("CONTROL_SENTINEL_VALUE", "CONTROL_SENTINEL_VALUE", "Z"),                   # Generated/Consts.v, re-read from the source
        ("np.sum(__a == CONTROL_SENTINEL_VALUE, axis=1)", "ctrl_counts {a}", "list Z", {"a": "list (list Z)"}),
        ("__a == __v", "eq_vec {a} {v}", "list bool", {"a": "list Z", "v": "Z"}),      # elementwise
        ("__a == __v", "{a} =? {v}", "bool", {"a": "Z", "v": "Z"}),
        ("__a[__m, :]", "select {m} {a}", "list (list Z)", {"a": "list (list Z)", "m": "list bool"}),
        ("np.sort(__x, axis=1)[:, -1]", "row_maxima {x}", "list Z", {"x": "list (list Z)"}),
    ] + _MASK_SELECT + [
        ("np.unique(__a)", "sort_uniq Z.compare {a}", "list Z", {"a": "list Z"}),      # sorted distinct values
        ("__a.flatten()", "concat {a}", "list Z", {"a": "list (list Z)"}),
        ("__a & __b", "and_vec {a} {b}", "list bool", {"a": "list bool", "b": "list bool"}),
        ("np.any(__m)", "any_true {m}", "bool", {"m": "list bool"}),
        ("np.mean(__a)", "mean {a}", "O", {"a": "list O"}),
    ],
    assign_effects=[("result[(__s, __t)] = 1.0", "result'", "dict2_set {state} ({s}, {t}) one"),
                    ("result[(__s, __t)] = __v", "result'", "dict2_set {state} ({s}, {t}) {v}")],
    raises=[("Experiment must have more than one treatment", 4)],
)

# SparseDrugComboInteraction._add_observations: self = (single_effect_lookup, wrapped_model); arity = data.treatment_arity
C04_INT_ADD = dict(
    _C04, imports="Lib.Num Generated.Consts Model.Encode Model.Train",
    file="src/batchie/models/sparse_combo_interaction.py", cls="SparseDrugComboInteraction", func="_add_observations",
    name="src_int_add_observations", pyparams=["self", "data"],
    attr_vars={"self.wrapped_model": "wrapped_model", "self.single_effect_lookup": "single_effect_lookup"},
    params=[("orc", "oracle"), ("r32", "cast_fn"), ("arity", "nat"), ("single_effect_lookup", "list (lkey * oval)"),
            ("wrapped_model", "legacy"), ("data", "list trow")],
    returns="(list (lkey * oval) * legacy)",
    vars={"combo_mask": "list bool", "obs": "list oval", "cls": "list Z", "dd1s": "list Z", "dd2s": "list Z", "masks": "list bool",
          "observations_transformed": "list oval", "y": "oval", "dd1": "Z", "dd2": "Z", "cl": "Z", "mask": "bool"},
    overload=True,
    prims=_C04_ROWS + _C04_NUMPY + [
        ("data.treatment_arity", "Z.of_nat arity", "Z"),                               # treatment_ids.shape[1]
        # runs the translated create_single_treatment_effect_map at O = oval
        ("create_single_treatment_effect_map(sample_ids=__s, treatment_ids=__t, observation=__o)",
         "!src_create_single_treatment_effect_map oval oone omean arity {s} {t} {o}", "list (lkey * oval)",
         {"s": "list Z", "t": "list (list Z)", "o": "list oval"}),
        ("np.sum(__a == CONTROL_SENTINEL_VALUE, axis=1)", "ctrl_counts {a}", "list Z", {"a": "list (list Z)"}),
        ("__c == 0", "eq_vec {c} 0", "list bool", {"c": "list Z"}),
        ("__a[__m, 0]", "column 0 (select {m} {a})", "list Z", {"a": "list (list Z)", "m": "list bool"}),
        ("__a[__m, 1]", "column 1 (select {m} {a})", "list Z", {"a": "list (list Z)", "m": "list bool"}),
    ] + [("__a[__m]", "select {m} {a}", t, {"a": t, "m": "list bool"}) for t in ("list oval", "list Z", "list bool")] + [
        ("zip(__a, __b, __c, __d, __e)", "zip5 {a} {b} {c} {d} {e}", "list (oval * Z * Z * Z * bool)",
         {"a": "list oval", "b": "list Z", "c": "list Z", "d": "list Z", "e": "list bool"}),
    ],
    effects=[("single_effect_lookup.update(__m)", "single_effect_lookup'", "lk_update {state} {m}"),      # dict.update
             ("wrapped_model._update(y=__y, cl=__c, dd1=__a, dd2=__b)", "wrapped_model'", "!src_legacy_int_update {state} {y} {c} {a} {b}")],
    raises=[("only works with two-treatments combination datasets", 4), ("Observations should be non-negative", 2),
            ("NaNs in observations", 3)],
    implicit_return="({single_effect_lookup}, {wrapped_model})",
)

ALL += [C04_SINGLE_EFFECT_MAP, C04_INT_ADD]

# ---- C01: the id encoders of data.py (vocabulary: end of Model/Encode.v; proofs: Proofs/C01Source.v) ----
# numpy: a 1-d array is the list of its values, an id array (`idarray`) also carries "integer dtype".  pandas: a DataFrame is
# the list of its rows in order, each with its index label (`frame R`), typed by its column set; a Series is the list of its
# values (positional operators).  Trusted per entry: ONE numpy / pandas call each.  Doses are order keys: the only float
# operation is `<= 0`.
_C01 = dict(file="src/batchie/data.py", out="SrcEncode.v", imports="Generated.Consts Model.Encode", overload=True)
_SENTINEL = ("CONTROL_SENTINEL_VALUE", "CONTROL_SENTINEL_VALUE", "Z")        # the module constant (Generated/Consts.v: read from common.py)
_ZL = {"a": "list Z", "b": "list Z"}
C01_VALID_IDS = dict(
    _C01, func="numpy_array_is_0_indexed_integers", name="src_numpy_array_is_0_indexed_integers", pyparams=["arr"],
    params=[("arr", "idarray")], returns="bool", vars={},
    prims=[_SENTINEL,
           ("np.issubdtype(__a.dtype, int)", "arr_is_int {a}", "bool", {"a": "idarray"}),
           ("__x in __a", "np_contains {x} {a}", "bool", {"x": "Z", "a": "idarray"}),              # numpy's `in`: (a == x).any()
           ("np.unique(__a)", "np_unique_ids {a}", "list Z", {"a": "idarray"}),                    # sorted distinct values
           ("np.sort(__a)", "np_sort_Z {a}", "list Z", {"a": "list Z"}),
           ("__a.shape[0]", "Z.of_nat (length {a})", "Z", {"a": "list Z"}),
           ("np.arange(__n)", "zrange {n}", "list Z", {"n": "Z"}),                                  # 0 .. n-1, empty for n <= 0
           ("np.array(__a)", "{a}", "list Z", {"a": "list Z"}),                                     # np.array([x]): the list's values
           ("np.concatenate([__a, __b])", "{a} ++ {b}", "list Z", _ZL),
           ("__a == __b", "np_eq_Z {a} {b}", "list bool", _ZL),                                     # elementwise, equal shapes
           ("np.all(__b)", "all_true {b}", "bool", {"b": "list bool"})],
)

_TMAP_PY, _SMAP_PY = "(list name * list Z * idarray)", "(list name * idarray)"
_OPTIDS = "list (option Z)"               # the id column of a left merge: NaN (None) where the mapping has no row
_PANDAS_COMMON = [
    ("np.all(__b)", "all_true {b}", "bool", {"b": "list bool"}),
    ("__s.notna()", "series_notna {s}", "list bool", {"s": _OPTIDS}),
    ("__s.values", "{s}", _OPTIDS, {"s": _OPTIDS}),                                                # the column's values as an array
    ("__s.to_numpy()", "{s}", "list name", {"s": "list name"}),
    ("__s.to_numpy()", "{s}", "list Z", {"s": "list Z"}),
]
_DF_UNIQUE_T = "kframe | cframe | iframe | nframe | dframe | mframe"
C01_ENCODE_TREATMENTS = dict(
    _C01, func="encode_treatment_arrays_to_0_indexed_ids", name="src_encode_treatment_arrays",
    pyparams=["treatment_name_arr", "treatment_dose_arr", "control_treatment_name", "existing_mapping"], pydefaults=["''", "None"],
    params=[("treatment_name_arr", "list name"), ("treatment_dose_arr", "list Z"), ("control_treatment_name", "name"),
            ("existing_mapping", "opt " + _TMAP_PY)],
    returns="(%s * list name * list Z * list Z)" % _OPTIDS,
    vars={"df": "kframe", "df_unique": _DF_UNIQUE_T, "dose_is_zero": "list bool", "treatment_is_control": "list bool",
          "is_control": "list bool", "selection": "list Z", "joined": "jframe"},
    plain_contexts=["pandas.option_context('mode.copy_on_write', True)"], with_return=True,
    prims=[_SENTINEL,
           ("__m[0]", "fst (fst {m})", "list name", {"m": _TMAP_PY}), ("__m[1]", "snd (fst {m})", "list Z", {"m": _TMAP_PY}),
           ("__m[2]", "snd {m}", "idarray", {"m": _TMAP_PY}),
           ("pandas.DataFrame({'name': __a, 'dose': __b})", "!df_of_cols2 {a} {b}", "kframe", {"a": "list name", "b": "list Z"}),
           ("pandas.DataFrame({'name': __a, 'dose': __b, 'new_index': __c})", "!mframe_of_cols {a} {b} {c}", "mframe",
            {"a": "list name", "b": "list Z", "c": "idarray"}),
           ("__d.drop_duplicates()", "df_drop_duplicates tkey_eqb {d}", "kframe", {"d": "kframe"}),
           ("__d.sort_values(by=['name', 'dose'])", "df_sort_values tkey_cmp {d}", "kframe", {"d": "kframe"}),
           ("__d.reset_index(drop=True)", "df_reset_drop {d}", "kframe", {"d": "kframe"}),
           ("__d.reset_index(drop=False)", "df_reset_keep {d}", "iframe", {"d": "cframe"}),
           ("__d['dose']", "kcol_dose {d}", "list Z", {"d": "kframe"}),
           ("__d['name']", "kcol_name {d}", "list name", {"d": "kframe"}),
           ("__s <= 0", "series_le0 {s}", "list bool", {"s": "list Z"}),                            # the one float comparison
           ("__s == __c", "series_eq_name {s} {c}", "list bool", {"s": "list name", "c": "name"}),
           ("__a | __b", "series_or {a} {b}", "list bool", {"a": "list bool", "b": "list bool"}),
           ("__d.index", "df_index {d}", "list Z", {"d": "iframe"}), ("__d.index", "df_index {d}", "list Z", {"d": "nframe"}),
           ("__d.is_control", "icol_is_control {d}", "list bool", {"d": "iframe"}),
           ("__d.is_control", "ncol_is_control {d}", "list bool", {"d": "nframe"}),
           ("__s.cumsum()", "series_cumsum {s}", "list Z", {"s": "list bool"}),
           ("__a - __b", "series_sub {a} {b}", "list Z", _ZL),                                      # Index - Series
           ("__i[__m]", "series_select {m} {i}", "list Z", {"i": "list Z", "m": "list bool"}),      # Index[boolean Series]
           ("__l.merge(__r, on=['name', 'dose'], how='left')", "df_merge_left tkey_eqb {l} {r}", "jframe", {"l": "kframe", "r": "mframe"}),
           ("__d.new_index", "jcol_new_index {d}", _OPTIDS, {"d": "jframe"}),
           ("__d.new_index", "mcol_new_index {d}", "list Z", {"d": "mframe"}),
           ("__d.name", "mcol_name {d}", "list name", {"d": "mframe"}), ("__d.dose", "mcol_dose {d}", "list Z", {"d": "mframe"}),
           ] + _PANDAS_COMMON,
    retype_effects=[
        ("df_unique['is_control'] = __s", "df_unique", "df_add_col {state} {s}", "kframe", "cframe", {"s": "list bool"}),
        ("df_unique['new_index'] = __s", "df_unique", "df_add_col {state} {s}", "iframe", "nframe", {"s": "list Z"}),
        ("df_unique.loc[__l, 'new_index'] = __v", "df_unique", "df_loc_set {state} {l} {v}", "nframe", "nframe", {"l": "list Z", "v": "Z"}),
        ("del df_unique['index']", "df_unique", "df_del_index {state}", "nframe", "dframe"),
        ("del df_unique['is_control']", "df_unique", "df_del_is_control {state}", "dframe", "mframe")],
    raises=[("Mapping of treatments to ids failed", 5)],
)
C01_ENCODE_1D = dict(
    _C01, func="encode_1d_array_to_0_indexed_ids", name="src_encode_1d_array", pyparams=["arr", "existing_mapping"], pydefaults=["None"],
    params=[("arr", "list name"), ("existing_mapping", "opt " + _SMAP_PY)],
    returns="(%s * list name * list Z)" % _OPTIDS,
    vars={"df": "vframe", "df_unique": "vframe | viframe | vmframe", "joined": "frame (name * option Z)"},
    plain_contexts=["pandas.option_context('mode.copy_on_write', True)"], with_return=True,
    prims=[("__m[0]", "fst {m}", "list name", {"m": _SMAP_PY}), ("__m[1]", "snd {m}", "idarray", {"m": _SMAP_PY}),
           ("pandas.DataFrame({'val': __a})", "vframe_of_col {a}", "vframe", {"a": "list name"}),
           ("pandas.DataFrame({'val': __a, 'new_index': __b})", "!vmframe_of_cols {a} {b}", "vmframe", {"a": "list name", "b": "idarray"}),
           ("__d.drop_duplicates()", "df_drop_duplicates name_eqb {d}", "vframe", {"d": "vframe"}),
           ("__d.sort_values(by='val')", "df_sort_values name_cmp {d}", "vframe", {"d": "vframe"}),
           ("__d.reset_index(drop=True)", "df_reset_drop {d}", "vframe", {"d": "vframe"}),
           ("__d.reset_index(drop=False)", "df_reset_keep {d}", "viframe", {"d": "vframe"}),
           ("__d.rename(columns={'index': 'new_index'})", "df_rename_index {d}", "vmframe", {"d": "viframe"}),
           ("__l.merge(__r, on=['val'], how='left')", "df_merge_left name_eqb {l} {r}", "frame (name * option Z)", {"l": "vframe", "r": "vmframe"}),
           ("__d.new_index", "jcol_new_index {d}", _OPTIDS, {"d": "frame (name * option Z)"}),
           ("__d.new_index", "vmcol_new_index {d}", "list Z", {"d": "vmframe"}),
           ("__d.val", "vmcol_val {d}", "list name", {"d": "vmframe"}),
           ] + _PANDAS_COMMON,
    raises=[("Mapping to ids failed", 6)],
)
ALL += [C01_VALID_IDS, C01_ENCODE_TREATMENTS, C01_ENCODE_1D]

# Screen.__init__: the statements that encode names and doses to ids (py2gal body_slice; the observation-mask statements are
# C12_INIT_*).  treatment_names / treatment_doses are 2-d arrays `(arr2 T)` = (shape[1], rows); the three encoder calls run
# the translated encoders above; `self.<attr>` stores are variables (attr_vars) and the run's value is the tuple of the six
# stored attributes.  Trusted per entry: ONE numpy call / tuple projection each (meanings: end of Model/Screen.v).
_A2N, _A2Z, _A2I = "(arr2 name)", "(arr2 Z)", "(arr2 (option Z))"
_TRIPLE, _PAIR = "(list name * list Z * list Z)", "(list name * list Z)"
_INIT_C01 = dict(
    file="src/batchie/data.py", cls="Screen", func="__init__", out="SrcScreenIds.v",
    imports="Generated.Consts Model.Encode Model.Screen Generated.SrcEncode", overload=True,
    pyparams=["self", "treatment_names", "treatment_doses", "sample_names", "plate_names", "observations", "observation_mask",
              "control_treatment_name", "treatment_mapping", "sample_mapping"],
    pydefaults=["None", "None", "''", "None", "None"],
)
C01_INIT_CTRL = dict(
    _INIT_C01, name="src_init_control_name",
    body_slice=("self.control_treatment_name = control_treatment_name", "self.control_treatment_name = control_treatment_name"),
    attr_vars={"self.control_treatment_name": "self_control_treatment_name"},
    params=[("control_treatment_name", "name")], returns="name", vars={"self_control_treatment_name": "name"},
    implicit_return="{self_control_treatment_name}",
)
C01_INIT_IDS = dict(
    _INIT_C01, name="src_init_ids",
    body_slice=("treatment_arity = treatment_names.shape[1]", "self._plate_mapping = (unique_plate_names, unique_plate_ids)"),
    attr_vars={"self.control_treatment_name": "self_control_treatment_name", "self._treatment_mapping": "self_treatment_mapping",
               "self._treatment_ids": "self_treatment_ids", "self._sample_ids": "self_sample_ids",
               "self._sample_mapping": "self_sample_mapping", "self._plate_ids": "self_plate_ids",
               "self._plate_mapping": "self_plate_mapping"},
    params=[("treatment_names", _A2N), ("treatment_doses", _A2Z), ("sample_names", "list name"), ("plate_names", "list name"),
            ("treatment_mapping", "opt " + _TMAP_PY), ("sample_mapping", "opt " + _SMAP_PY), ("self_control_treatment_name", "name")],
    returns="(%s * %s * %s * %s * %s * %s)" % (_TRIPLE, _A2I, _OPTIDS, _PAIR, _OPTIDS, _PAIR),
    vars={"treatment_arity": "Z", "dose_class_combos": "list (list name * list Z)", "i": "Z", "x": "(list name * list Z)",
          "all_dose_names": "list name", "all_drug_names": "list Z",
          "all_dose_class_combos_encoded": _OPTIDS, "unique_treatment_names": "list name", "unique_treatment_doses": "list Z",
          "unique_treatment_ids": "list Z", "unique_sample_names": "list name", "unique_sample_ids": "list Z",
          "unique_plate_names": "list name", "unique_plate_ids": "list Z",
          "self_treatment_mapping": _TRIPLE, "self_treatment_ids": _A2I, "self_sample_ids": _OPTIDS, "self_sample_mapping": _PAIR,
          "self_plate_ids": _OPTIDS, "self_plate_mapping": _PAIR},
    prims=[("__a.shape[1]", "arr2_shape1 {a}", "Z", {"a": _A2N}),
           ("__a[:, __i]", "!arr2_col [] {a} {i}", "list name", {"a": _A2N, "i": "Z"}),
           ("__a[:, __i]", "!arr2_col 0 {a} {i}", "list Z", {"a": _A2Z, "i": "Z"}),
           ("__x[0]", "fst {x}", "list name", {"x": "(list name * list Z)"}), ("__x[1]", "snd {x}", "list Z", {"x": "(list name * list Z)"}),
           ("np.concatenate(__l)", "!np_concat {l}", "list name", {"l": "list list name"}),
           ("np.concatenate(__l)", "!np_concat {l}", "list Z", {"l": "list list Z"}),
           ("__m[-1]", "snd {m}", "idarray", {"m": _TMAP_PY}), ("__m[-1]", "snd {m}", "idarray", {"m": _SMAP_PY}),
           # the three callees run their translations (C01_VALID_IDS, C01_ENCODE_1D above; the default of existing_mapping is
           # checked there by pydefaults)
           ("numpy_array_is_0_indexed_integers(__a)", "!src_numpy_array_is_0_indexed_integers {a}", "bool", {"a": "idarray"}),
           ("encode_1d_array_to_0_indexed_ids(__a, existing_mapping=__m)", "!src_encode_1d_array {a} {m}",
            "(%s * list name * list Z)" % _OPTIDS, {"a": "list name", "m": "opt " + _SMAP_PY}),
           ("encode_1d_array_to_0_indexed_ids(__a)", "!src_encode_1d_array {a} None", "(%s * list name * list Z)" % _OPTIDS, {"a": "list name"}),
           ("np.split(__a, __n)", "!np_split {a} {n}", "list list (option Z)", {"a": _OPTIDS, "n": "Z"}),
           ("np.vstack(__l)", "!np_vstack {l}", _A2I, {"l": "list list (option Z)"}),
           ("__a.T", "arr2_T None {a}", _A2I, {"a": _A2I})],
    kwcalls={"encode_treatment_arrays_to_0_indexed_ids": (
        "!src_encode_treatment_arrays {treatment_name_arr} {treatment_dose_arr} {control_treatment_name} {existing_mapping}",
        "(%s * list name * list Z * list Z)" % _OPTIDS,
        [("treatment_name_arr", "list name", None), ("treatment_dose_arr", "list Z", None),
         ("control_treatment_name", "name", "[]"), ("existing_mapping", "opt " + _TMAP_PY, "None")])},
    raises=[("Invalid treatment mapping", 3), ("Invalid sample mapping", 4)],
    implicit_return="({self_treatment_mapping}, {self_treatment_ids}, {self_sample_ids}, {self_sample_mapping}, {self_plate_ids}, {self_plate_mapping})",
)
ALL += [C01_INIT_CTRL, C01_INIT_IDS]

# ExperimentSpace.n_unique_samples / n_unique_treatments (the sizes C01 bounds every id by): `self` is the mapping tuple the
# property reads (from_screen passes the screen's stored tuples: C02_SPACE_FROM_SCREEN).  Trusted: one numpy call each.
_SPACE_C01 = dict(file="src/batchie/data.py", cls="ExperimentSpace", out="SrcScreenIds.v",
                  imports="Generated.Consts Model.Encode Model.Screen Generated.SrcEncode", overload=True, pyparams=["self"],
                  returns="Z", vars={})
_SPACE_NUMPY = [
    _SENTINEL,
    ("__m[0]", "fst {m}", "list name", {"m": _PAIR}), ("__m[2]", "snd {m}", "list Z", {"m": _TRIPLE}),
    ("np.unique(__a)", "sort_uniq name_cmp {a}", "list name", {"a": "list name"}),      # sorted distinct values
    ("np.unique(__a)", "sort_uniq Z.compare {a}", "list Z", {"a": "list Z"}),
    ("np.setdiff1d(__a, __b)", "np_setdiff1d {a} {b}", "list Z", _ZL),
    ("np.array(__a)", "{a}", "list Z", {"a": "list Z"}),
    ("__a.size", "Z.of_nat (length {a})", "Z", {"a": "list name"}), ("__a.size", "Z.of_nat (length {a})", "Z", {"a": "list Z"}),
]
C01_SPACE_N_SAMPLES = dict(
    _SPACE_C01, func="n_unique_samples", name="src_space_n_unique_samples",
    attr_vars={"self.sample_mapping": "self_sample_mapping"}, params=[("self_sample_mapping", _PAIR)], prims=_SPACE_NUMPY)
C01_SPACE_N_TREATMENTS = dict(
    _SPACE_C01, func="n_unique_treatments", name="src_space_n_unique_treatments",
    attr_vars={"self.treatment_mapping": "self_treatment_mapping"}, params=[("self_treatment_mapping", _TRIPLE)], prims=_SPACE_NUMPY)
ALL += [C01_SPACE_N_SAMPLES, C01_SPACE_N_TREATMENTS]

# ---- C08: models/sparse_combo.py LegacySparseDrugComboImpl, the Gibbs blocks (vocabulary: end of Model/Gibbs.v) ----
# `self` is split as the model splits it: g : cfg (options, sizes, hyper-parameters), d : data (self.y, self.cline, self.dd1,
# self.dd2 and the index dicts _update derives from them), and the sampler state self : st (cfg["fields"]).  A method denotes a
# program in the free monad gprog over the model's draws: every np.random.normal / np.random.gamma / sample_mvn_from_precision
# call is a GDraw node carrying the call's arguments, and the method goes on with the drawn value.
# Trusted per entry: one attribute read / numpy operator / numpy call each.  WHICH index list a block reads, what enters a
# residual, the prior-only branch, a draw's arguments, where the drawn value is stored, the cache update and the order of all
# of these come from the translation.
_QV, _QM, _NV, _ZV = "list qnum", "list list qnum", "list nat", "list Z"
_C08 = dict(
    file="src/batchie/models/sparse_combo.py", cls="LegacySparseDrugComboImpl", out="SrcGibbs.v", imports="Lib.Num Model.Gibbs",
    overload=True,
    monad=dict(type="gprog", bind="dop", ok="GRet", fold="prog_fold", unwrap="gprog_has_no_unwrap", bind_quote=""),
    coerce=[("Z", "qnum", "qofZ {x}")],                    # a Python int where a float is needed is that float
    float_consts={"0.0": ("q0", "qnum"), "1.0": ("q1", "qnum"), "0.5": ("half", "qnum"),
                  "0.001": ("jitter", "qnum"), "1000000.0": ("prec_hi", "qnum")},
    fields={f: ("st", t, f + " {obj}", "set_" + f + " {obj} {val}") for f, t in [
        ("W", _QM), ("W0", _QV), ("V2", _QM), ("V1", _QM), ("V0", _QV), ("alpha", "qnum"), ("prec", "qnum"), ("tau", _QV),
        ("tau0", "qnum"), ("phi2", _QM), ("phi1", _QM), ("phi0", _QV), ("eta2", _QV), ("eta1", _QV), ("eta0", "qnum"),
        ("gam", _QV), ("Mu", _QV)]},
)
_C08_SELF = [      # attributes of self that the sampler never writes: sizes, hyper-parameters, the observations
    ("self.n_clines", "Z.of_nat (c_ncl g)", "Z"), ("self.n_drugdoses", "Z.of_nat (c_ndd g)", "Z"), ("self.D", "Z.of_nat (c_D g)", "Z"),
    ("self.a0", "c_a0 g", "qnum"), ("self.b0", "c_b0 g", "qnum"), ("self.y", "d_y d", _QV),
    ("self.n_obs()", "!src_n_obs d", "Z"),                                                   # runs its translation
    ("self.encode_obs()", "(d_y d, d_cl d, d_dd1 d, d_dd2 d)", "(list qnum * list Z * list Z * list Z)"),
    # the index dicts: _update appends the observation number n to cline_idxs[cl], dd1_idxs[dd1], dd2_idxs[dd2]
    ("self.cline_idxs[__k]", "positions {k} (d_cl d)", _NV, {"k": "Z"}),
    ("self.dd1_idxs[__k]", "positions {k} (d_dd1 d)", _NV, {"k": "Z"}),
    ("self.dd2_idxs[__k]", "positions {k} (d_dd2 d)", _NV, {"k": "Z"}),
    ("np.array(__l, copy=False)", "{l}", _NV, {"l": _NV}), ("np.array(__l, copy=False, dtype=int)", "{l}", _NV, {"l": _NV}),
]
_Q2 = {"a": "qnum", "b": "qnum"}
_C08_SCALAR = [    # Python / numpy float arithmetic as exact rational arithmetic; integer arithmetic
    ("__a + __b", "({a} + {b})%Z", "Z", {"a": "Z", "b": "Z"}), ("__a - __b", "({a} - {b})%Z", "Z", {"a": "Z", "b": "Z"}),
    ("__a * __b", "({a} * {b})%Z", "Z", {"a": "Z", "b": "Z"}),
    ("__a + __b", "qadd {a} {b}", "qnum", _Q2), ("__a - __b", "qsub {a} {b}", "qnum", _Q2),
    ("__a * __b", "qmul {a} {b}", "qnum", _Q2), ("__a / __b", "qdiv {a} {b}", "qnum", _Q2),
]
_C08_SQRT = [      # np.sqrt and the reciprocal of a square root stay symbolic (Model/Gibbs.v: ssqrt, isqrt)
    ("np.sqrt(__x)", "Sqrt {x}", "ssqrt", {"x": "qnum"}),
    ("1.0 / __r", "inv_sqrt {r}", "isqrt", {"r": "ssqrt"}),
    ("np.clip(__x, __lo, __hi)", "np_clip_isq orc {x} {lo} {hi}", "qnum", {"x": "qnum", "lo": "isqrt", "hi": "qnum"}),
]
_C08_DRAWS = [
    ("np.random.normal(__m, __s)", "!draw_normal {m} {s}", "qnum", {"m": "qnum", "s": "isqrt"}),
    ("np.random.gamma(__a, __s)", "!draw_gamma {a} {s}", "qnum", {"a": "qnum", "s": "qnum"}),
]
_C08_VEC = [       # arrays of equal shape, array op scalar, reductions, integer-array indexing
    ("__a - __b", "np_vsub {a} {b}", _QV, {"a": _QV, "b": _QV}),
    ("__a + __b", "np_vadd {a} {b}", _QV, {"a": _QV, "b": _QV}),
    ("__a + __x", "np_vadds {a} {x}", _QV, {"a": _QV, "x": "qnum"}),
    ("np.square(__a)", "np_square {a}", _QV, {"a": _QV}), ("__a ** 2", "np_square {a}", _QV, {"a": _QV}),
    ("__a.sum()", "qsum {a}", "qnum", {"a": _QV}), ("__a.mean()", "qmean {a}", "qnum", {"a": _QV}),
    ("np.mean(__a)", "qmean {a}", "qnum", {"a": _QV}),
    ("len(__l)", "Z.of_nat (length {l})", "Z"),
    ("__a[__i]", "np_get q0 {a} {i}", "qnum", {"a": _QV, "i": "Z"}),
    ("__a[__i]", "np_gather q0 {a} {i}", _QV, {"a": _QV, "i": _NV}),
    ("np.concatenate([__a, __b])", "{a} ++ {b}", _QV, {"a": _QV, "b": _QV}),
    ("np.concatenate([__a, __b])", "{a} ++ {b}", _NV, {"a": _NV, "b": _NV}),
]
_STMETHOD = dict(_C08, pyparams=["self"], returns="st", implicit_return="{self}")
_GDS = [("g", "cfg"), ("d", "data"), ("self", "st")]
_GDOS = [("g", "cfg"), ("d", "data"), ("orc", "oracle"), ("self", "st")]

C08_N_OBS = dict(_C08, func="n_obs", name="src_n_obs", pyparams=["self"], params=[("d", "data")], returns="Z", vars={},
                 prims=[("self.y", "d_y d", _QV), ("len(__l)", "Z.of_nat (length {l})", "Z")])

# self.get(attr, ix): `arr` is the attribute's array (axis-0 entries of any type T, z = the zero of an entry's shape)
C08_GET = dict(
    _C08, func="get", name="src_get", pyparams=["self", "attr", "ix"],
    params=[("T", "Type"), ("z", "T"), ("arr", "list T"), ("ix", _ZV)], returns="list T",
    vars={"A": "list T", "controls": _NV},
    prims=[("self.__getattribute__(attr)", "arr", "list T"),
           ("__a[__i]", "np_take z {a} {i}", "list T", {"a": "list T", "i": _ZV}),      # integer fancy indexing
           ("__a.copy()", "{a}", "list T", {"a": "list T"}),                            # a copy has the same value
           ("__a == __v", "map (fun x => (x =? {v})%Z) {a}", "list bool", {"a": _ZV, "v": "Z"}),
           ("np.where(__m)[0]", "np_where {m}", _NV, {"m": "list bool"}),
           ("__a > __v", "map (fun i => (Z.of_nat i >? {v})%Z) {a}", "list bool", {"a": _NV, "v": "Z"}),
           ("len(__l)", "Z.of_nat (length {l})", "Z")],
    assign_effects=[("A[__c] = 0.0", "A'", "np_zero_at z {state} {c}")],
)

# mcmc_step: `run` is what a block method does to the state (ANY implementation; the linking theorems instantiate it)
C08_MCMC_STEP = dict(
    _STMETHOD, func="mcmc_step", name="src_mcmc_step",
    params=[("run", "blk -> st -> gprog st"), ("num_mcmc_steps", "Z"), ("self", "st")], vars={},
    attr_vars={"self.num_mcmc_steps": "num_mcmc_steps"},      # a counter nothing else reads
    prims=[("__a + __b", "({a} + {b})%Z", "Z", {"a": "Z", "b": "Z"})],
    effects=[("self._reconstruct_Mu(clip=False)", "self'", "!run BReconstruct {state}")] + [
        ("self.%s()" % m, "self'", "!run %s {state}" % b) for m, b in [
            ("_alpha_step", "BAlpha"), ("_W0_step", "BW0"), ("_V0_step", "BV0"), ("_W_step", "BW"), ("_V2_step", "BV2"),
            ("_V1_step", "BV1"), ("_prec_W0_step", "BPrecW0"), ("_prec_V0_step", "BPrecV0"), ("_prec_obs_step", "BPrecObs"),
            ("_prec_V2_step", "BPrecV2"), ("_prec_V1_step", "BPrecV1"), ("_prec_W_step", "BPrecW")]],
)

_Y_STAR = "y, *_ = self.encode_obs()\n"
C08_ALPHA = dict(
    _STMETHOD, func="_alpha_step", name="src_alpha_step",
    params=[("g", "cfg"), ("d", "data"), ("fake_intercept", "bool"), ("self", "st")],
    vars={"old_value": "qnum", "y": _QV, "mean": "qnum", "stddev": "isqrt"},
    prims=[("self.fake_intercept", "fake_intercept", "bool")] + _C08_SELF + _C08_SCALAR + _C08_SQRT[:2] + _C08_DRAWS + _C08_VEC,
    stmt_prims=[(_Y_STAR, "y", "d_y d", _QV)],
)
C08_PREC_OBS = dict(
    _STMETHOD, func="_prec_obs_step", name="src_prec_obs_step", params=_GDOS,
    vars={"sse": "qnum", "an": "qnum", "bn": "qnum", "C": "isqrt", "last_rmse": "ssqrt"},
    attr_vars={"self.last_rmse": "last_rmse"},                # a diagnostic nothing else reads
    prims=_C08_SELF + _C08_SCALAR + _C08_SQRT + _C08_DRAWS + _C08_VEC,
)
C08_PREC_W0 = dict(
    _STMETHOD, func="_prec_W0_step", name="src_prec_W0_step", params=_GDOS,
    vars={"an": "qnum", "bn": "qnum", "C": "isqrt"},
    prims=_C08_SELF + _C08_SCALAR + _C08_SQRT + _C08_DRAWS + _C08_VEC,
)
# the scalar Gaussian blocks.  `self.X[i] = v` stores into the state's array X; `self.Mu[idx] += x` is numpy's fancy-index update
_store = lambda f: ("self.%s[__i] = __v" % f, "self'", "set_%s {state} (np_store (%s {state}) {i} {v})" % (f, f))
_MU_IADD_SCALAR = ("self.Mu[__i] += __v", "self'", "set_Mu {state} (np_iadd_at_scalar (Mu {state}) {i} {v})")
_Y_STAR2 = "y, _, *_ = self.encode_obs()\n"
_C08_BLOCK_PRIMS = _C08_SELF + _C08_SCALAR + _C08_SQRT[:2] + _C08_DRAWS + _C08_VEC
C08_W0_STEP = dict(
    _STMETHOD, func="_W0_step", name="src_W0_step", params=_GDS,
    vars={"y": _QV, "c": "Z", "cidx": _NV, "stddev": "isqrt", "resid": _QV, "old_contrib": "qnum", "N": "Z", "mean": "qnum"},
    prims=_C08_BLOCK_PRIMS, stmt_prims=[(_Y_STAR2, "y", "d_y d", _QV)],
    assign_effects=[_store("W0"), _MU_IADD_SCALAR],
)
C08_V0_STEP = dict(
    _STMETHOD, func="_V0_step", name="src_V0_step", params=_GDS,
    vars={"y": _QV, "cline": _ZV, "dd1": _ZV, "dd2": _ZV, "m": "Z", "idx1": _NV, "idx2": _NV, "stddev": "isqrt",
          "old_value": "qnum", "resid1": _QV, "resid2": _QV, "resid": _QV, "idx": _NV, "N": "Z", "mean": "qnum"},
    prims=_C08_BLOCK_PRIMS, assign_effects=[_store("V0"), _MU_IADD_SCALAR],
)
# the horseshoe precision steps: vectorised gamma draws, clipping
_C08_VEC2 = [      # scalar op array, array * array, arrays of square roots, the counts N1 / N2
    ("__x + __a", "np_sadd {x} {a}", _QV, {"x": "qnum", "a": _QV}), ("__x * __a", "np_smul {x} {a}", _QV, {"x": "qnum", "a": _QV}),
    ("__x / __a", "np_sdiv {x} {a}", _QV, {"x": "qnum", "a": _QV}), ("__a * __b", "np_vmul {a} {b}", _QV, {"a": _QV, "b": _QV}),
    ("np.sqrt(__a)", "map Sqrt {a}", "list ssqrt", {"a": _QV}), ("1.0 / __r", "map inv_sqrt {r}", "list isqrt", {"r": "list ssqrt"}),
    ("np.clip(__a, __lo, __hi)", "np_clip_isq_each orc {a} {lo} {hi}", _QV, {"a": _QV, "lo": "list isqrt", "hi": "qnum"}),
    ("np.clip(__a, __lo, __hi)", "np_clip_isq_all orc {a} {lo} {hi}", _QV, {"a": _QV, "lo": "isqrt", "hi": "qnum"}),
    ("np.random.gamma(__a, __s)", "!draw_gamma_vec {a} {s}", _QV, {"a": "qnum", "s": _QV}),
    ("range(__n)", "zrange {n}", _ZV, {"n": "Z"}), ("np.array(__l)", "{l}", _ZV, {"l": _ZV}),
]
_HS_PRIMS = [("self.local_shrinkage", "local_shrinkage", "bool")] + _C08_SELF + _C08_SCALAR + _C08_SQRT + _C08_DRAWS + _C08_VEC + _C08_VEC2
_HS_PARAMS = [("g", "cfg"), ("d", "data"), ("orc", "oracle"), ("local_shrinkage", "bool"), ("self", "st")]
C08_PREC_V0 = dict(
    _STMETHOD, func="_prec_V0_step", name="src_prec_V0_step", params=_HS_PARAMS,
    vars={"phiaux0": _QV, "bn": "list qnum | qnum", "N1": _ZV, "N2": _ZV, "C": "list isqrt | isqrt", "an": "qnum", "etaaux0": "qnum"},
    prims=_HS_PRIMS,
)
_C08_MAT = [       # matrices as lists of rows: scalar op matrix, row vector * matrix (broadcast over the rows), matrix op matrix
    ("__x + __a", "map (np_sadd {x}) {a}", _QM, {"x": "qnum", "a": _QM}), ("__x / __a", "map (np_sdiv {x}) {a}", _QM, {"x": "qnum", "a": _QM}),
    ("__v * __a", "map (np_vmul {v}) {a}", _QM, {"v": _QV, "a": _QM}), ("__a ** 2", "map np_square {a}", _QM, {"a": _QM}),
    ("__a + __b", "zipw np_vadd {a} {b}", _QM, {"a": _QM, "b": _QM}), ("__a * __b", "zipw np_vmul {a} {b}", _QM, {"a": _QM, "b": _QM}),
    ("__a + __x", "map (fun r__ => np_vadds r__ {x}) {a}", _QM, {"a": _QM, "x": "qnum"}),
    ("__a.sum(0)", "np_colsum (c_D g) {a}", _QV, {"a": _QM}),                       # the sampler's matrices have self.D columns
    ("np.clip(__a, __c[:, None], __hi)", "np_clip_isq_rows orc {a} {c} {hi}", _QM, {"a": _QM, "c": "list isqrt", "hi": "qnum"}),
    ("np.random.gamma(__a, __s)", "!draw_gamma_mat {a} {s}", _QM, {"a": "qnum", "s": _QM}),
]
_hs_vk = lambda k: dict(
    _STMETHOD, func="_prec_V%s_step" % k, name="src_prec_V%s_step" % k, params=_HS_PARAMS,
    vars={"phiaux" + k: _QM, "bn": "list list qnum | list qnum", "N1": _ZV, "N2": _ZV, "C": "list isqrt | isqrt", "an": "qnum",
          "etaaux" + k: _QV},
    prims=_HS_PRIMS + _C08_MAT)
C08_PREC_V2, C08_PREC_V1 = _hs_vk("2"), _hs_vk("1")
# the multiplicative gamma process of the W columns
C08_PREC_W = dict(
    _STMETHOD, func="_prec_W_step", name="src_prec_W_step",
    params=[("g", "cfg"), ("d", "data"), ("orc", "oracle"), ("mult_gamma_proc", "bool"), ("self", "st")],
    vars={"parssq": _QM, "tmp": _QV, "an": "qnum", "bn": "qnum | list qnum", "d": "Z", "C": "isqrt"},
    range_like=(),                                             # range(n) / range(a, b) are the prims below
    prims=[("self.mult_gamma_proc", "mult_gamma_proc", "bool"), ("range(__a, __b)", "zrange2 {a} {b}", _ZV, {"a": "Z", "b": "Z"}),
           ("np.cumprod(__a)", "cumprod {a}", _QV, {"a": _QV}), ("__a / __x", "np_vdivs {a} {x}", _QV, {"a": _QV, "x": "qnum"}),
           ("__a[__i:]", "np_from {a} {i}", _QV, {"a": _QV, "i": "Z"}),
           ("__a[:, __i:]", "map (fun r__ => np_from r__ {i}) {a}", _QM, {"a": _QM, "i": "Z"}),
           ("__a.sum()", "np_msum {a}", "qnum", {"a": _QM})]
          + _C08_SELF + _C08_SCALAR + _C08_SQRT + _C08_DRAWS + _C08_VEC + _C08_VEC2 + _C08_MAT,
    assign_effects=[_store("gam")],
)
# the vector Gaussian blocks: matrix primitives, the try/except around sample_mvn_from_precision
_getcall = lambda f: ("self.get('%s', __i)" % f, "!src_get (list qnum) (repeat q0 (c_D g)) (%s self') {i}" % f, _QM, {"i": _ZV})
_C08_LINALG = [
    _getcall("V2"), _getcall("V1"),                            # runs the translated get on self.V2 / self.V1 (a zero row has D zeros)
    ("__a[__i]", "np_gather 0%Z {a} {i}", _ZV, {"a": _ZV, "i": _NV}),
    ("__a[__i]", "np_get [] {a} {i}", _QV, {"a": _QM, "i": "Z"}),
    ("__X @ __v", "np_matvec {X} {v}", _QV, {"X": _QM, "v": _QV}),
    ("__A @ __B", "np_matmul (c_D g) {A} {B}", _QM, {"A": _QM, "B": _QM}),      # the sampler's design matrices have self.D columns
    ("__X.transpose()", "np_transpose (c_D g) {X}", _QM, {"X": _QM}),
    ("__a * __x", "np_vmuls {a} {x}", _QV, {"a": _QV, "x": "qnum"}), ("__A * __x", "np_mmuls {A} {x}", _QM, {"A": _QM, "x": "qnum"}),
    ("np.random.normal(0.0, __s)", "!draw_normal_vec {s}", _QV, {"s": "list isqrt"}),
]
_MU_IADD = ("self.Mu[__i] += __v", "self'", "set_Mu {state} (np_iadd_at (Mu {state}) {i} {v})")
_MVN = ("sample_mvn_from_precision(__Q, mu_part=__b)", "draw_mvn {Q} {b}", {"Q": _QM, "b": _QV}, "VV {x}", _QV)
C08_W_STEP = dict(
    _STMETHOD, func="_W_step", name="src_W_step", params=_GDS,
    vars={"y": _QV, "_": _ZV, "dd1": _ZV, "dd2": _ZV, "c": "Z", "cidx": _NV, "stddev": "list isqrt", "tmp1": _QM, "tmp2": _QM,
          "X": _QM, "old_contrib": _QV, "resid": _QV, "Xt": _QM, "prec": "qnum", "mu_part": _QV, "Q": _QM},
    prims=_C08_LINALG + _C08_BLOCK_PRIMS + _C08_VEC2[:6] + _C08_MAT[:6],
    assign_effects=[_store("W"), _MU_IADD, ("Q[np.diag_indices(self.D)] += __v", "Q'", "np_add_diag {state} {v}")],
    try_prims=[_MVN], ignore=["warnings.warn(__m)"],
)
_C08_LINALG2 = [
    ("__a[__i]", "np_take (repeat q0 (c_D g)) {a} {i}", _QM, {"a": _QM, "i": _ZV}),       # rows of a D-column matrix by Python ints
    ("np.array([], dtype=np.float32).reshape(0, self.D)", "[]", _QM),                      # the matrix without rows
    ("np.concatenate([__a, __b])", "{a} ++ {b}", _QM, {"a": _QM, "b": _QM}),
    ("np.diag_indices(__n)", "DiagIndices {n}", "diag_indices", {"n": "Z"}),
]
_vstep = lambda k: dict(
    _STMETHOD, func="_V%s_step" % k, name="src_V%s_step" % k, params=_GDS,
    vars={"y": _QV, "cline": _ZV, "dd1": _ZV, "dd2": _ZV, "m": "Z", "idx1": _NV, "idx2": _NV, "stddev": "list isqrt",
          "resid1": _QV, "old_contrib1": _QV, "X1": _QM, "resid2": _QV, "old_contrib2": _QV, "X2": _QM, "X": _QM, "resid": _QV,
          "old_contrib": _QV, "idx": _NV, "Xt": _QM, "mu_part": _QV, "Q": _QM, "dix": "diag_indices"},
    prims=_C08_LINALG2 + _C08_LINALG + _C08_BLOCK_PRIMS + _C08_VEC2[:6] + _C08_MAT[:6],
    assign_effects=[_store("V" + k), _MU_IADD, ("Q[dix] += __v", "Q'", "np_add_diag_at dix' {state} {v}")],
    try_prims=[_MVN], ignore=["warnings.warn(__m)"])
C08_V2_STEP, C08_V1_STEP = _vstep("2"), _vstep("1")
# _reconstruct_Mu(clip): the fitted values from scratch
C08_RECONSTRUCT = dict(
    _STMETHOD, func="_reconstruct_Mu", name="src_reconstruct_Mu", pyparams=["self", "clip"], pydefaults=["True"],
    params=[("g", "cfg"), ("d", "data"), ("clip", "bool"), ("self", "st")],
    vars={"_": _QV, "cline": _ZV, "dd1": _ZV, "dd2": _ZV, "interaction2": _QV, "interaction1": _QV, "intercept": _QV},
    prims=[("self.get('V0', __i)", "!src_get qnum q0 (V0 self') {i}", _QV, {"i": _ZV}),
           ("__a[__i]", "np_take q0 {a} {i}", _QV, {"a": _QV, "i": _ZV}),
           ("np.sum(__a, -1)", "map qsum {a}", _QV, {"a": _QM}),                      # row sums
           ("self.min_Mu", "c_minMu g", "qnum"), ("self.max_Mu", "c_maxMu g", "qnum"),
           ("np.clip(__a, __lo, __hi)", "map (qclip {lo} {hi}) {a}", _QV, {"a": _QV, "lo": "qnum", "hi": "qnum"})]
          + _C08_LINALG2[:1] + _C08_LINALG[:2] + _C08_SELF + _C08_SCALAR + _C08_VEC + _C08_VEC2[:4] + _C08_MAT[:6],
)
# _update / encode_obs on the observation store of the object (pyobs: the four lists, the three defaultdict(list) index dicts)
_OBS = dict(
    file="src/batchie/models/sparse_combo.py", cls="LegacySparseDrugComboImpl", out="SrcGibbs.v", imports="Lib.Num Model.Gibbs", overload=True,
    fields={"y": ("pyobs", _QV, "o_y {obj}", "set_o_y {obj} {val}"), "cline": ("pyobs", _ZV, "o_cl {obj}", "set_o_cl {obj} {val}"),
            "dd1": ("pyobs", _ZV, "o_dd1 {obj}", "set_o_dd1 {obj} {val}"), "dd2": ("pyobs", _ZV, "o_dd2 {obj}", "set_o_dd2 {obj} {val}")})
C08_UPDATE = dict(
    _OBS, func="_update", name="src_update", pyparams=["self", "y", "cl", "dd1", "dd2"],
    params=[("self", "pyobs"), ("y", "qnum"), ("cl", "Z"), ("dd1", "Z"), ("dd2", "Z")], returns="pyobs", implicit_return="{self}",
    vars={"n": "nat"},
    prims=[("self.n_obs()", "length (o_y self')", "nat")],                     # n_obs = len(self.y) (linked: C08_N_OBS)
    effects=[("self.cline_idxs[__k].append(__n)", "self'", "set_o_cidx {state} (dl_append (o_cidx {state}) {k} {n})"),
             ("self.dd1_idxs[__k].append(__n)", "self'", "set_o_1idx {state} (dl_append (o_1idx {state}) {k} {n})"),
             ("self.dd2_idxs[__k].append(__n)", "self'", "set_o_2idx {state} (dl_append (o_2idx {state}) {k} {n})")],
)
C08_ENCODE_OBS = dict(
    _OBS, func="encode_obs", name="src_encode_obs", pyparams=["self"], params=[("self", "pyobs")],
    returns="(list qnum * list Z * list Z * list Z)", vars={"y": _QV, "cline": _ZV, "dd1": _ZV, "dd2": _ZV},
    prims=[("np.array(__l, copy=False)", "{l}", _QV, {"l": _QV}), ("np.array(__l, copy=False)", "{l}", _ZV, {"l": _ZV})],
)
C08_ALL = [C08_N_OBS, C08_GET, C08_MCMC_STEP, C08_ALPHA, C08_PREC_OBS, C08_PREC_W0, C08_W0_STEP, C08_V0_STEP, C08_PREC_V0,
           C08_PREC_V2, C08_PREC_V1, C08_PREC_W, C08_W_STEP, C08_V2_STEP, C08_V1_STEP, C08_RECONSTRUCT, C08_UPDATE, C08_ENCODE_OBS]
ALL += C08_ALL
# C15: the unranking generator generate_combination_at_sorted_index (scoring/gaussian_dbal.py) as ONE function, and its
# wrapper get_combination_at_sorted_index.  A generator denotes the list it yields; the inner `while current_index - n_ck >
# index` runs on the explicit fuel parameter (py2gal: a general loop test); every `//` and `%` is checked (ZeroDivisionError =
# tag 8, the tag Model/Unrank.v uses).  The outer loop variable `k` shadows the parameter: it is carried in the loop state
# and range(k, 0, -1) is evaluated once, before the loop, on the parameter.  Trusted: the three builtin calls below.
_C15_BUILTINS = [
    ("range(__a, __b, -1)", "range_down {a} {b}", "list Z", {"a": "Z", "b": "Z"}),     # a, a-1, ..., b+1
    ("range(__a, __b)", "range_up {a} {b}", "list Z", {"a": "Z", "b": "Z"}),           # a, a+1, ..., b-1
    ("zip(__a, __b)", "combine {a} {b}", "list (Z * Z)", {"a": "list Z", "b": "list Z"}),   # pairs, up to the shorter one
]
C15_GENERATE = dict(
    file="src/batchie/scoring/gaussian_dbal.py", func="generate_combination_at_sorted_index",
    out="SrcUnrank.v", imports="Model.Unrank", name="src_generate_combination_at_sorted_index",
    pyparams=["index", "n", "k"], params=[("index", "Z"), ("n", "Z"), ("k", "Z"), ("fuel", "nat")],
    returns="list Z", generator="Z", while_fuel="fuel", checked_div=8,
    range_like=(),      # no structural range(n) here: every range call is one of the primitives above
    vars={"n_ck": "Z", "n_minus_i": "Z", "i_plus_1": "Z", "current_index": "Z", "k": "Z", "n": "Z"},
    prims=_C15_BUILTINS,
)
C15_GET = dict(
    file="src/batchie/scoring/gaussian_dbal.py", func="get_combination_at_sorted_index",
    out="SrcUnrank.v", imports="Model.Unrank", name="src_get_combination_at_sorted_index",
    pyparams=["index", "n", "k"], params=[("index", "Z"), ("n", "Z"), ("k", "Z"), ("fuel", "nat")],
    returns="list Z", vars={},
    prims=[
        # the callee runs its translation (C15_GENERATE above), on the same fuel
        ("generate_combination_at_sorted_index(__i, __n, __k)", "!src_generate_combination_at_sorted_index {i} {n} {k} fuel",
         "list Z", {"i": "Z", "n": "Z", "k": "Z"}),
        ("tuple(__g)", "{g}", "list Z", {"g": "list Z"}),      # a tuple is the list of its items, in the generator's order
    ],
)
ALL += [C15_GENERATE, C15_GET]
# ---- C07: distance_calculation.py, whole functions (vocabulary: Model/Chunks.v, Model/DistMat.v) ----
# An iterator over the generator lower_triangular_indices(n) is the list of the items it has not produced yet (the
# translated generator's list at creation).  Trusted: islice's two uses (one library call each), the translator.
_C07 = dict(file="src/batchie/distance_calculation.py", out="SrcChunks.v", imports="Model.Chunks")
_PAIRS = "list (Z * Z)"
C07_CONSUME = dict(
    _C07, func="consume", name="src_consume", pyparams=["iterator", "n"],
    params=[("iterator", _PAIRS), ("n", "Z")], returns=_PAIRS, vars={},
    # collections.deque(islice(it, n), maxlen=0) advances `iterator`; the function returns None: its denotation is the
    # iterator's state afterwards
    effects=[("collections.deque(islice(iterator, n), maxlen=0)", "iterator'", "!islice_drop {state} n'")],
    implicit_return="{iterator}",
)
C07_N_LOWER = dict(
    _C07, func="get_number_of_lower_triangular_indices", name="src_get_number_of_lower_triangular_indices",
    pyparams=["n"], params=[("n", "Z")], returns="Z", vars={}, zero_division=10,
)
C07_CHUNK = dict(
    _C07, func="get_lower_triangular_indices_chunk", name="src_get_lower_triangular_indices_chunk",
    pyparams=["n", "chunk_index", "n_chunks"], params=[("n", "Z"), ("chunk_index", "Z"), ("n_chunks", "Z")],
    returns=_PAIRS, assert_error=9, zero_division=10,
    vars={"n_indices": "Z", "chunk_size": "Z", "remainder": "Z", "start_index": "Z", "end_index": "Z", "g": _PAIRS},
    prims=[
        # the three callees run their translations (above / C07_LOWER_TRI)
        ("get_number_of_lower_triangular_indices(__n)", "!src_get_number_of_lower_triangular_indices {n}", "Z", {"n": "Z"}),
        ("lower_triangular_indices(__n)", "!src_lower_triangular_indices {n}", _PAIRS, {"n": "Z"}),
        ("list(islice(__g, __k))", "!islice_take {g} {k}", _PAIRS, {"g": _PAIRS, "k": "Z"}),
    ],
    effects=[("consume(g, __k)", "g'", "!src_consume {state} {k}")],
)
ALL += [C07_CONSUME, C07_N_LOWER, C07_CHUNK]

# ChunkedDistanceMatrix: an object is the record `cdm V` of its six attributes (Model/DistMat.v, storage level); V is the
# type of a stored value (a float), vzero the zero np.zeros(dtype=float) fills with, visz the test `x != 0` negated.
_CDM = "(cdm V)"
_VT = [("V", "Type"), ("vzero", "V"), ("visz", "V -> bool")]
_C07M = dict(
    file="src/batchie/distance_calculation.py", cls="ChunkedDistanceMatrix", out="SrcDistMat.v",
    imports="Model.Chunks Model.DistMat Generated.SrcChunks", overload=True, index_error=98,
    fields={"size": (_CDM, "Z", "c_size {obj}", "set_c_size {obj} {val}"),
            "chunk_size": (_CDM, "Z", "c_chunk {obj}", "set_c_chunk {obj} {val}"),
            "current_index": (_CDM, "Z", "c_cur {obj}", "set_c_cur {obj} {val}"),
            "row_indices": (_CDM, "list Z", "c_rows {obj}", "set_c_rows {obj} {val}"),
            "col_indices": (_CDM, "list Z", "c_cols {obj}", "set_c_cols {obj} {val}"),
            "values": (_CDM, "list V", "c_vals {obj}", "set_c_vals {obj} {val}")},
)
_ZL1, _VL1 = {"a": "list Z"}, {"a": "list V"}
_CDM_NUMPY = [
    ("len(__l)", "Z.of_nat (length {l})", "Z"),
    ("np.zeros(__n, dtype=int)", "!np_zeros 0 {n}", "list Z", {"n": "Z"}),
    ("np.zeros(__n, dtype=float)", "!np_zeros vzero {n}", "list V", {"n": "Z"}),
    ("np.concatenate((__a, __b))", "{a} ++ {b}", "list Z", {"a": "list Z", "b": "list Z"}),
    ("np.concatenate((__a, __b))", "{a} ++ {b}", "list V", {"a": "list V", "b": "list V"}),
    ("__a[:__k]", "np_prefix {a} {k}", "list Z", {"a": "list Z", "k": "Z"}),
    ("__a[:__k]", "np_prefix {a} {k}", "list V", {"a": "list V", "k": "Z"}),
    ("__a[__i]", "!list_get {a} {i}", "Z", {"a": "list Z", "i": "Z"}),          # a negative index wraps, IndexError = Err 98
    ("__a[__i]", "!list_get {a} {i}", "V", {"a": "list V", "i": "Z"}),
    ("__x != 0", "negb ({x} =? 0)", "bool", {"x": "Z"}),
    ("__x != 0", "negb (visz {x})", "bool", {"x": "V"}),
    # the callees run their translations
    ("get_number_of_lower_triangular_indices(__n)", "!src_get_number_of_lower_triangular_indices {n}", "Z", {"n": "Z"}),
]
_CHUNK_KW = {"get_lower_triangular_indices_chunk": (
    "!src_get_lower_triangular_indices_chunk {n} {chunk_index} {n_chunks}", "list (Z * Z)",
    [("n", "Z", None), ("chunk_index", "Z", None), ("n_chunks", "Z", None)])}
_RAISES = [("Indices are out of bounds", 1), ("Indices must be lower triangular", 2), ("already been calculated", 12),
           ("must be of the same size", 3), ("Cannot concat matrices of different sizes", 3), ("Cannot concat empty list", 4),
           ("The distance matrix is not complete", 5)]
C07_CDM_INIT = dict(
    _C07M, func="__init__", name="src_cdm_init", pyparams=["self", "size", "n_chunks", "chunk_index", "chunk_size"],
    pydefaults=["1", "0", "None"],
    params=_VT + [("self", _CDM), ("size", "Z"), ("n_chunks", "Z"), ("chunk_index", "Z"), ("chunk_size", "opt Z")],
    returns=_CDM, vars={}, prims=_CDM_NUMPY, kwcalls=_CHUNK_KW, implicit_return="{self}",
)
C07_CDM_EXPAND = dict(
    _C07M, func="_expand_storage", name="src_cdm_expand_storage", pyparams=["self"],
    params=_VT + [("self", _CDM)], returns=_CDM, vars={}, prims=_CDM_NUMPY, implicit_return="{self}",
)
C07_CDM_ADD = dict(
    _C07M, func="add_value", name="src_cdm_add_value", pyparams=["self", "i", "j", "value"],
    params=_VT + [("self", _CDM), ("i", "Z"), ("j", "Z"), ("value", "V")], returns=_CDM, vars={}, prims=_CDM_NUMPY,
    effects=[("self._expand_storage()", "self'", "!src_cdm_expand_storage V vzero visz {state}")],
    raises=_RAISES, implicit_return="{self}",
)
C07_CDM_IS_COMPLETE = dict(
    _C07M, func="is_complete", name="src_cdm_is_complete", pyparams=["self"],
    params=_VT + [("self", _CDM)], returns="bool", vars={}, prims=_CDM_NUMPY,
)
C07_CDM_TO_DENSE = dict(
    _C07M, func="to_dense", name="src_cdm_to_dense", pyparams=["self"],
    params=_VT + [("self", _CDM)], returns="list list V", vars={"dense": "list list V", "i": "Z"},
    prims=_CDM_NUMPY + [
        ("__s.is_complete()", "!src_cdm_is_complete V vzero visz {s}", "bool", {"s": _CDM}),
        ("np.zeros((__n, __m))", "!np_zeros2 vzero {n} {m}", "list list V", {"n": "Z", "m": "Z"}),
    ],
    raises=_RAISES,
)
C07_CDM_COMBINE = dict(
    _C07M, func="combine", name="src_cdm_combine", pyparams=["self", "other"],
    params=_VT + [("self", _CDM), ("other", _CDM)], returns=_CDM,
    vars={"composed": _CDM, "i": "Z", "row": "Z", "col": "Z", "value": "V"},
    prims=_CDM_NUMPY + [
        # ChunkedDistanceMatrix(size, chunk_size=c): a new object initialised by the translated __init__ with the
        # signature's defaults n_chunks=1, chunk_index=0 (checked there by pydefaults)
        ("ChunkedDistanceMatrix(__s, chunk_size=__c)", "!src_cdm_init V vzero visz (cdm_blank V) {s} 1 0 (Some {c})", _CDM,
         {"s": "Z", "c": "Z"}),
        ("(__a, __b) not in zip(__r, __c)", "negb (pair_in_zip {a} {b} {r} {c})", "bool",
         {"a": "Z", "b": "Z", "r": "list Z", "c": "list Z"}),
    ],
    # a[:k] = v on an attribute array (one numpy slice store each)
    assign_effects=[("composed.row_indices[:__k] = __v", "composed'", "!cdm_store_rows {state} {k} {v}"),
                    ("composed.col_indices[:__k] = __v", "composed'", "!cdm_store_cols {state} {k} {v}"),
                    ("composed.values[:__k] = __v", "composed'", "!cdm_store_vals {state} {k} {v}")],
    effects=[("composed.add_value(__i, __j, __v)", "composed'", "!src_cdm_add_value V vzero visz {state} {i} {j} {v}")],
    raises=_RAISES,
)
C07_CDM_CONCAT = dict(
    _C07M, func="concat", name="src_cdm_concat", pyparams=["cls", "matrices"], unused_params=["cls"],
    params=_VT + [("matrices", "list " + _CDM)], returns=_CDM, vars={"accumulator": _CDM, "matrix": _CDM},
    prims=[("len(__l)", "Z.of_nat (length {l})", "Z"),
           ("__l[1:]", "tl {l}", "list " + _CDM, {"l": "list " + _CDM}),
           ("__l[__i]", "!list_get {l} {i}", _CDM, {"l": "list " + _CDM, "i": "Z"}),
           ("__a.combine(__b)", "!src_cdm_combine V vzero visz {a} {b}", _CDM, {"a": _CDM, "b": _CDM})],
    raises=_RAISES,
)
ALL += [C07_CDM_INIT, C07_CDM_EXPAND, C07_CDM_ADD, C07_CDM_IS_COMPLETE, C07_CDM_TO_DENSE, C07_CDM_COMBINE, C07_CDM_CONCAT]

# calculate_pairwise_distance_matrix_on_predictions: the holder, the samples' prediction method and the metric are ARBITRARY
# functions (get_theta : Z -> Th, predict : Th -> Pr, dist : Pr -> Pr -> V); n = thetas.n_thetas.
C07_CALC = dict(
    {k: v for k, v in _C07M.items() if k != "cls"},
    func="calculate_pairwise_distance_matrix_on_predictions", name="src_calculate_pairwise",
    pyparams=["thetas", "distance_metric", "data", "chunk_index", "n_chunks", "progress"], pydefaults=["False"],
    params=_VT + [("Th", "Type"), ("Pr", "Type"), ("n", "Z"), ("get_theta", "Z -> Th"), ("predict", "Th -> Pr"),
                  ("dist", "Pr -> Pr -> V"), ("chunk_index", "Z"), ("n_chunks", "Z")],
    returns=_CDM,
    vars={"indices": _PAIRS, "result": _CDM, "i": "Z", "j": "Z", "sample_i": "Th", "i_pred": "Pr", "sample_j": "Th",
          "j_pred": "Pr", "value": "V"},
    prims=[
        ("thetas.n_thetas", "n", "Z"),
        ("tqdm.tqdm(__l) if progress else __l", "{l}", _PAIRS, {"l": _PAIRS}),      # tqdm iterates the list it wraps
        ("thetas.get_theta(__i)", "get_theta {i}", "Th", {"i": "Z"}),
        ("__s.predict_viability(data)", "predict {s}", "Pr", {"s": "Th"}),
        ("distance_metric.distance(__a, __b)", "dist {a} {b}", "V", {"a": "Pr", "b": "Pr"}),
    ],
    kwcalls=dict(_CHUNK_KW, ChunkedDistanceMatrix=(
        # a new object initialised by the translated __init__; its defaults are checked there by pydefaults
        "!src_cdm_init V vzero visz (cdm_blank V) {size} {n_chunks} {chunk_index} {chunk_size}", _CDM,
        [("size", "Z", None), ("n_chunks", "Z", "1"), ("chunk_index", "Z", "0"), ("chunk_size", "opt Z", "None")])),
    effects=[("result.add_value(__i, __j, __v)", "result'", "!src_cdm_add_value V vzero visz {state} {i} {j} {v}")],
    ignore=["logger.info(__a)"],
)
ALL += [C07_CALC]

# MSEDistance.distance over exact rationals (Model/Mse.v): expit is the oracle, numpy's elementwise operators and mean
# are primitives (one call each); np.mean of an empty array (NaN) is Err 6 as in the model.
_QV = "list Qcanon.Qc"
C07_MSE = dict(
    file="src/batchie/distance/mse.py", cls="MSEDistance", func="distance", out="SrcMse.v", imports="Lib.Num Model.Mse",
    name="src_mse_distance", pyparams=["self", "a", "b"],
    params=[("orc", "oracle"), ("sigmoid", "bool"), ("a", _QV), ("b", _QV)], returns="Qcanon.Qc", vars={"a": _QV, "b": _QV},
    prims=[
        ("self.sigmoid", "sigmoid", "bool"),
        ("expit(__x)", "map (orc ORC_EXPIT) {x}", _QV, {"x": _QV}),          # scipy.special.expit, elementwise
        ("np.mean(__x)", "!np_mean {x}", "Qcanon.Qc", {"x": _QV}),
        ("__x ** 2", "map qsq {x}", _QV, {"x": _QV}),
        ("__x - __y", "!vec_sub {x} {y}", _QV, {"x": _QV, "y": _QV}),
    ],
)
ALL += [C07_MSE]

# ChunkedDistanceMatrix.save / load: the HDF5 file is the record `h5cdm V` of its four datasets (Model/DistMat.v); the h5py
# calls are primitives (one call each): create_dataset stores an array under a name, f[name][:] / f[name][0] read it.
_H5C = "(h5cdm V)"
C07_CDM_SAVE = dict(
    _C07M, func="save", name="src_cdm_save", pyparams=["self", "filename"],
    params=_VT + [("self", _CDM)], returns=_H5C, vars={"f": _H5C},      # returns what has been written to `filename`
    contexts=[("h5py.File(filename, 'w')", "h5cdm_new V", _H5C)],
    prims=_CDM_NUMPY + [("np.array([__x])", "[{x}]", "list Z", {"x": "Z"})],
    effects=[("f.create_dataset('row_indices', data=__d, compression='gzip')", "f'", "set_f_rows {state} {d}"),
             ("f.create_dataset('col_indices', data=__d, compression='gzip')", "f'", "set_f_cols {state} {d}"),
             ("f.create_dataset('values', data=__d, compression='gzip')", "f'", "set_f_vals {state} {d}"),
             ("f.create_dataset('size', data=__d, compression='gzip')", "f'", "set_f_size {state} {d}")],
    implicit_return="{f}",
)
C07_CDM_LOAD = dict(
    _C07M, func="load", name="src_cdm_load", pyparams=["cls", "filename"],
    params=_VT + [("h5", _H5C)], returns=_CDM,                          # h5 = what the file at `filename` holds
    vars={"f": _H5C, "row_indices": "list Z", "col_indices": "list Z", "values": "list V", "size": "Z", "instance": _CDM},
    contexts=[("h5py.File(filename, 'r')", "h5", _H5C)],
    prims=[("__f['row_indices'][:]", "!h5_dataset (f_rows {f})", "list Z", {"f": _H5C}),
           ("__f['col_indices'][:]", "!h5_dataset (f_cols {f})", "list Z", {"f": _H5C}),
           ("__f['values'][:]", "!h5_dataset (f_vals {f})", "list V", {"f": _H5C}),
           ("__f['size'][0]", "!h5_first (f_size {f})", "Z", {"f": _H5C}),
           # cls(size, chunk_size=c): a new object initialised by the translated __init__ (defaults n_chunks=1, chunk_index=0)
           ("cls(__s, chunk_size=__c)", "!src_cdm_init V vzero visz (cdm_blank V) {s} 1 0 (Some {c})", _CDM, {"s": "Z", "c": "Z"}),
           ] + _CDM_NUMPY,
    assign_effects=[("instance.row_indices[:__k] = __v", "instance'", "!cdm_store_rows {state} {k} {v}"),
                    ("instance.col_indices[:__k] = __v", "instance'", "!cdm_store_cols {state} {k} {v}"),
                    ("instance.values[:__k] = __v", "instance'", "!cdm_store_vals {state} {k} {v}")],
)
ALL += [C07_CDM_SAVE, C07_CDM_LOAD]
# ---- the command-line wrappers batchie/cli/*.py (vocabulary: Model/Cli.v; proofs: Proofs/C??SourceCli.v) ----
# `argv` = the parsed arguments as a record of the plain argparse results (get_args() is not translated: it is the
# primitive that yields the record); `L` = the record of the library functions the wrapper calls (Model/Cli.v), every
# primitive below is ONE field read / ONE library call / ONE constructor call, standing for the function of that name.
# `written` = the files written so far, in order (a typed effect per save).
_CLI = dict(out="SrcCli.v", imports="Model.Cli", pyparams=[], predefine={"written": "[]"}, implicit_return="{written}",
            ignore=["log_config.configure_logging(args)", "logger.info(__a)", "logger.warning(__a)"])
_NOSET = "field_of_the_parsed_arguments_is_never_stored {obj} {val}"     # not a Gallina term: a store to args.<x> is refused by Coq


def _arg_fields(owner, prefix, table):
    return {a: (owner, t, "%s_%s {obj}" % (prefix, a), _NOSET) for a, t in table.items()}


# argument_parsing.get_prng_from_seed_argument(args): reads args.seed only (any other use of `args` is an unbound read)
CLI_PRNG = dict(
    file="src/batchie/cli/argument_parsing.py", func="get_prng_from_seed_argument", out="SrcCli.v", imports="Model.Cli",
    name="src_get_prng_from_seed_argument", pyparams=["args"], attr_vars={"args.seed": "seed"},
    params=[("mix", "Z -> Z"), ("seed", "Z")], returns="gen", vars={"better_seed": "Z"},
    prims=[("numpy.random.SeedSequence(__s).generate_state(1)[0]", "!seedseq_word mix {s}", "Z", {"s": "Z"}),   # ValueError for s < 0
           ("numpy.random.default_rng(__w)", "Gen {w}", "gen", {"w": "Z"})],
)
_HOLDER_HANDLE = ("ThetaHolder(n_thetas=1)", "Handle", "handle")      # only used to reach load_h5 / concat

CLI_CALCULATE_SCORES = dict(
    _CLI, file="src/batchie/cli/calculate_scores.py", func="main", name="src_cli_calculate_scores",
    params=[("Scr", "Type"), ("Pl", "Type"), ("Th", "Type"), ("Dm", "Type"), ("Sc", "Type"), ("H", "Type"),
            ("L", "cs_lib Scr Pl Th Dm Sc H"), ("mix", "Z -> Z"), ("argv", "cs_args")],
    returns="list (path * H)",
    vars={"written": "list (path * H)", "args": "cs_args", "screen": "Scr", "scorer": "Sc", "thetas_holder": "handle", "thetas": "Th",
          "n_plates": "Z", "distance_matrix": "Dm", "result": "H"},
    fields=_arg_fields("cs_args", "cs", {"data": "path", "thetas": "list path", "distance_matrix": "list path", "n_chunks": "Z",
                                         "chunk_index": "Z", "batch_plate_ids": "list Z", "output": "path", "progress": "bool"}),
    prims=[("get_args()", "argv", "cs_args"),
           ("Screen.load_h5(__p)", "!cs_load_screen L {p}", "Scr", {"p": "path"}),
           ("args.scorer_cls(**args.scorer_params)", "!cs_mk_scorer L", "Sc"),
           _HOLDER_HANDLE,
           ("ChunkedDistanceMatrix.load(__p)", "!cs_load_dist L {p}", "Dm", {"p": "path"}),
           ("ChunkedDistanceMatrix.concat(__l)", "!cs_concat_dist L {l}", "Dm", {"l": "list Dm"}),
           ("__h.load_h5(__p)", "!cs_load_thetas L {p}", "Th", {"h": "handle", "p": "path"}),     # through the ThetaHolder instance
           ("__h.concat(__l)", "!cs_concat_thetas L {l}", "Th", {"h": "handle", "l": "list Th"}),
           ("sum(__l)", "zsum {l}", "Z", {"l": "list Z"}),
           ("__s.plates", "cs_plates L {s}", "list Pl", {"s": "Scr"}),
           ("__p.is_observed", "cs_is_observed L {p}", "bool", {"p": "Pl"}),
           ("__p.plate_id", "cs_plate_id L {p}", "Z", {"p": "Pl"}),
           # runs the translated get_prng_from_seed_argument on the record's seed
           ("get_prng_from_seed_argument(__a)", "!src_get_prng_from_seed_argument mix (cs_seed {a})", "gen", {"a": "cs_args"})],
    # score_chunk's parameter list with the defaults of its signature (scoring/main.py); WHICH arguments are passed is read from the source
    kwcalls={"score_chunk": (
        "!cs_score_chunk L {scorer} {thetas} {screen} {distance_matrix} {rng} {progress_bar} {n_chunks} {chunk_index} {batch_plate_ids}", "H",
        [("scorer", "Sc", None), ("thetas", "Th", None), ("screen", "Scr", None), ("distance_matrix", "Dm", None), ("rng", "opt gen", "None"),
         ("progress_bar", "bool", "false"), ("n_chunks", "Z", "1"), ("chunk_index", "Z", "0"), ("batch_plate_ids", "opt list Z", "None")])},
    typed_effects=[("__r.save_h5(__p)", "written'", "{state} ++ [({p}, {r})]", {"r": "H", "p": "path"})],
)

CLI_SELECT_NEXT_PLATE = dict(
    _CLI, file="src/batchie/cli/select_next_plate.py", func="main", name="src_cli_select_next_plate",
    params=[("Scr", "Type"), ("Pl", "Type"), ("Po", "Type"), ("H", "Type"), ("L", "sn_lib Scr Pl Po H"), ("mix", "Z -> Z"),
            ("argv", "sn_args")],
    returns="list (path * Z)",
    vars={"written": "list (path * Z)", "args": "sn_args", "screen": "Scr", "policy": "opt Po", "rng": "gen", "scores": "H",
          "next_plate": "opt Pl", "f": "path"},
    fields=_arg_fields("sn_args", "sn", {"data": "path", "scores": "list path", "policy": "opt cname", "output": "path",
                                         "batch_plate_id": "list Z"}),
    prims=[("get_args()", "argv", "sn_args"),
           ("Screen.load_h5(__p)", "!sn_load_screen L {p}", "Scr", {"p": "path"}),
           ("args.policy_cls(**args.policy_params)", "!sn_mk_policy L", "Po"),
           ("get_prng_from_seed_argument(__a)", "!src_get_prng_from_seed_argument mix (sn_seed {a})", "gen", {"a": "sn_args"}),
           ("ChunkedScoresHolder.load_h5(__p)", "!sn_load_scores L {p}", "H", {"p": "path"}),
           ("ChunkedScoresHolder.concat(__l)", "!sn_concat_scores L {l}", "H", {"l": "list H"}),
           ("__p.plate_id", "sn_plate_id L {p}", "Z", {"p": "Pl"})],
    kwcalls={"select_next_plate": (
        "!sn_select L {scores} {screen} {policy} {batch_plate_ids} {rng}", "opt Pl",
        [("scores", "H", None), ("screen", "Scr", None), ("policy", "opt Po", None), ("batch_plate_ids", "opt list Z", "None"),
         ("rng", "opt gen", "None")])},
    # a file opened for writing is the path it was opened on; f.write(str(n)) puts the decimal text of the int n there
    contexts=[("open(__p, 'w')", "{p}", "path", {"p": "path"})],
    typed_effects=[("f.write(str(__n))", "written'", "{state} ++ [(f', {n})]", {"n": "Z"})],
)

CLI_TRAIN_MODEL = dict(
    _CLI, file="src/batchie/cli/train_model.py", func="main", name="src_cli_train_model",
    attr_vars={"args.model_params": "model_params"},      # the dict of KEY=VALUE model parameters, updated in place
    params=[("Scr", "Type"), ("Sub", "Type"), ("Sp", "Type"), ("Pa", "Type"), ("Mo", "Type"), ("Th", "Type"),
            ("L", "tm_lib Scr Sub Sp Pa Mo Th"), ("model_params", "Pa"), ("argv", "tm_args")],
    returns="list (path * Th)",
    vars={"written": "list (path * Th)", "args": "tm_args", "data": "Scr", "experiment_space": "Sp", "model": "Mo", "samples_holder": "Th",
          "observed_subset": "opt Sub", "results": "Th"},
    fields=_arg_fields("tm_args", "tm", {"data": "path", "output": "path", "n_samples": "Z", "n_burnin": "Z", "thin": "Z", "n_chains": "Z",
                                         "chain_index": "Z", "seed": "Z", "progress": "bool"}),
    prims=[("get_args()", "argv", "tm_args"),
           ("Screen.load_h5(__p)", "!tm_load_screen L {p}", "Scr", {"p": "path"}),
           ("ExperimentSpace.from_screen(__s)", "!tm_from_screen L {s}", "Sp", {"s": "Scr"}),
           ("args.model_cls(**__p)", "!tm_construct L {p}", "Mo", {"p": "Pa"}),
           ("ThetaHolder(n_thetas=__n)", "!tm_new_holder L {n}", "Th", {"n": "Z"}),
           ("__s.subset_observed()", "tm_subset_observed L {s}", "opt Sub", {"s": "Scr"})],
    assign_effects=[("model_params[EXPERIMENT_SPACE] = __e", "model_params'", "tm_set_space L {state} {e}")],
    kwcalls={"sampling.sample": (
        "!tm_sample L {model} {results} {seed} {n_chains} {chain_index} {n_burnin} {thin} {progress_bar}", "Th",
        [("model", "Mo", None), ("results", "Th", None), ("seed", "Z", None), ("n_chains", "opt Z", "None"), ("chain_index", "opt Z", "None"),
         ("n_burnin", "opt Z", "None"), ("thin", "opt Z", "None"), ("progress_bar", "bool", "false")])},
    typed_effects=[("model.add_observations(__d)", "model'", "!tm_add_observations L {state} {d}", {"d": "Sub"}),
                   ("__r.save_h5(__p)", "written'", "{state} ++ [({p}, {r})]", {"r": "Th", "p": "path"})],
)

CLI_REVEAL_PLATE = dict(
    _CLI, file="src/batchie/cli/reveal_plate.py", func="main", name="src_cli_reveal_plate",
    params=[("Scr", "Type"), ("L", "rp_lib Scr"), ("argv", "rp_args")],
    returns="list (path * Scr)",
    vars={"written": "list (path * Scr)", "args": "rp_args", "screen": "Scr", "advanced_screen": "Scr"},
    fields=_arg_fields("rp_args", "rp", {"screen": "path", "output": "path", "plate_id": "list Z"}),
    prims=[("get_args()", "argv", "rp_args"),
           ("Screen.load_h5(__p)", "!rp_load_screen L {p}", "Scr", {"p": "path"}),
           ("reveal_plates(__s, __i)", "!rp_reveal L {s} {i}", "Scr", {"s": "Scr", "i": "list Z"})],
    typed_effects=[("__r.save_h5(__p)", "written'", "{state} ++ [({p}, {r})]", {"r": "Scr", "p": "path"})],
)

_RNG = ["rng'"]
CLI_PREPARE = dict(
    _CLI, file="src/batchie/cli/prepare_retrospective_simulation.py", func="main", name="src_cli_prepare",
    params=[("Scr", "Type"), ("Pl", "Type"), ("Ig", "Type"), ("Pg", "Type"), ("Ps", "Type"), ("L", "pr_lib Scr Pl Ig Pg Ps"),
            ("mix", "Z -> Z"), ("argv", "pr_args")],
    returns="list (path * Scr)",
    vars={"written": "list (path * Scr)", "args": "pr_args", "screen": "Scr", "filtered_screen": "Scr", "rng": "gen",
          "initial_plate_generator": "opt Ig", "initialized_screen": "Scr", "plate_generator": "Pg",
          "initialized_screen_with_generated_plates": "Scr", "random_first_plate": "Pl", "smoothed_screen": "Scr", "plate_smoother": "Ps",
          "n_plates": "Z", "avg_plate_size": "(Z * Z)", "plate_size_std": "handle", "training_screen": "Scr", "test_screen": "Scr"},
    fields=_arg_fields("pr_args", "pr", {"data": "path", "training_output": "path", "test_output": "path",
                                         "initial_plate_generator": "opt cname", "plate_generator": "opt cname", "plate_smoother": "opt cname",
                                         "holdout_fraction": "(Z * positive)"}),
    prims=[("get_args()", "argv", "pr_args"),
           ("Screen.load_h5(__p)", "!pr_load_screen L {p}", "Scr", {"p": "path"}),
           ("filter_dataset_to_treatments_that_appear_in_at_least_one_combo(__s)", "!pr_filter L {s}", "Scr", {"s": "Scr"}),
           ("get_prng_from_seed_argument(__a)", "!src_get_prng_from_seed_argument mix (pr_seed {a})", "gen", {"a": "pr_args"}),
           ("args.initial_plate_generator_cls(**args.initial_plate_generator_params)", "!pr_mk_initial L", "Ig"),
           ("args.plate_generator_cls(**args.plate_generator_params)", "!pr_mk_generator L", "Pg"),
           ("args.plate_smoother_cls(**args.plate_smoother_params)", "!pr_mk_smoother L", "Ps"),
           ("__s.plates", "pr_plates L {s}", "list Pl", {"s": "Scr"}),
           ("__p.is_observed", "pr_is_observed L {p}", "bool", {"p": "Pl"}),
           ("__p.plate_id", "pr_plate_id L {p}", "Z", {"p": "Pl"}),
           ("__p.size", "pr_plate_size L {p}", "Z", {"p": "Pl"}),
           ("__s.n_plates", "pr_n_plates L {s}", "Z", {"s": "Scr"}),
           ("__s.size / __n", "!py_truediv (pr_size L {s}) {n}", "(Z * Z)", {"s": "Scr", "n": "Z"}),       # int / int: ZeroDivisionError
           ("np.std(__l)", "np_std {l}", "handle", {"l": "list Z"})],
    kwcalls={"mask_screen": ("!pr_mask L {screen}", "Scr", [("screen", "Scr", None)]),
             "reveal_plates": ("!pr_reveal L {screen} {plate_ids}", "Scr", [("screen", "Scr", None), ("plate_ids", "list Z", None)])},
    # the calls on the one generator object: each receives the state its predecessor left and leaves the next one
    state_calls=[
        ("__g.generate_and_unmask_initial_plate(screen=__s, rng=rng)", _RNG, "pr_initial L {g} {s} rng'", "Scr", {"g": "Ig", "s": "Scr"}),
        ("__g.generate_plates(screen=__s, rng=rng)", _RNG, "pr_generate L {g} {s} rng'", "Scr", {"g": "Pg", "s": "Scr"}),
        ("rng.choice(__l)", _RNG, "pr_choice L {l} rng'", "Pl", {"l": "list Pl"}),
        ("__g.smooth_plates(screen=__s, rng=rng)", _RNG, "pr_smooth L {g} {s} rng'", "Scr", {"g": "Ps", "s": "Scr"}),
        ("create_plate_balanced_holdout_set_among_masked_plates(screen=__s, fraction=__f, rng=rng)", _RNG,
         "pr_holdout L {s} {f} rng'", "(Scr * Scr)", {"s": "Scr", "f": "(Z * positive)"})],
    typed_effects=[("__r.save_h5(__p)", "written'", "{state} ++ [({p}, {r})]", {"r": "Scr", "p": "path"})],
)

_META_DICT = ("{'n_unique_samples': __a, 'n_unique_treatments': __b, 'size': __c, 'n_plates': __d, 'n_unobserved_plates': __e, "
              "'n_observed_plates': __f}")
CLI_EXTRACT_METADATA = dict(
    _CLI, file="src/batchie/cli/extract_screen_metadata.py", func="main", name="src_cli_extract_screen_metadata",
    params=[("Scr", "Type"), ("Pl", "Type"), ("L", "em_lib Scr Pl"), ("argv", "em_args")],
    returns="list (path * meta)",
    vars={"written": "list (path * meta)", "args": "em_args", "experiment": "Scr", "n_observed_plates": "Z", "n_unobserved_plates": "Z",
          "plate": "Pl", "result_object": "meta", "f": "path"},
    fields=_arg_fields("em_args", "em", {"screen": "path", "output": "path"}),
    prims=[("get_args()", "argv", "em_args"),
           ("Screen.load_h5(__p)", "!em_load_screen L {p}", "Scr", {"p": "path"}),
           ("__s.plates", "em_plates L {s}", "list Pl", {"s": "Scr"}),
           ("__p.is_observed", "em_is_observed L {p}", "bool", {"p": "Pl"}),
           ("__s.n_unique_samples", "em_n_unique_samples L {s}", "Z", {"s": "Scr"}),
           ("__s.n_unique_treatments", "em_n_unique_treatments L {s}", "Z", {"s": "Scr"}),
           ("__s.size", "em_size L {s}", "Z", {"s": "Scr"}),
           ("__s.n_plates", "em_n_plates L {s}", "Z", {"s": "Scr"}),
           # the dict literal with exactly these six keys is the record of their values
           (_META_DICT, "mk_meta {a} {b} {c} {d} {e} {f}", "meta", {"a": "Z", "b": "Z", "c": "Z", "d": "Z", "e": "Z", "f": "Z"})],
    contexts=[("open(__p, 'w')", "{p}", "path", {"p": "path"})],
    typed_effects=[("json.dump(__o, f, indent=4)", "written'", "{state} ++ [(f', {o})]", {"o": "meta"})],
)

CLI_DISTANCE_MATRIX = dict(
    _CLI, file="src/batchie/cli/calculate_distance_matrix.py", func="main", name="src_cli_calculate_distance_matrix",
    params=[("Scr", "Type"), ("Th", "Type"), ("Me", "Type"), ("Dm", "Type"), ("L", "cd_lib Scr Th Me Dm"), ("argv", "cd_args")],
    returns="list (path * Dm)",
    vars={"written": "list (path * Dm)", "args": "cd_args", "data": "Scr", "thetas_holder": "handle", "thetas": "Th", "distance_metric": "Me",
          "result": "Dm"},
    fields=_arg_fields("cd_args", "cd", {"data": "path", "thetas": "list path", "n_chunks": "Z", "chunk_index": "Z", "output": "path",
                                         "progress": "bool"}),
    prims=[("get_args()", "argv", "cd_args"),
           ("Screen.load_h5(__p)", "!cd_load_screen L {p}", "Scr", {"p": "path"}),
           _HOLDER_HANDLE,
           ("__h.load_h5(__p)", "!cd_load_thetas L {p}", "Th", {"h": "handle", "p": "path"}),
           ("__h.concat(__l)", "!cd_concat_thetas L {l}", "Th", {"h": "handle", "l": "list Th"}),
           ("args.metric_cls(**args.metric_params)", "!cd_mk_metric L", "Me")],
    kwcalls={"calculate_pairwise_distance_matrix_on_predictions": (
        "!cd_calculate L {thetas} {distance_metric} {data} {chunk_index} {n_chunks} {progress}", "Dm",
        [("thetas", "Th", None), ("distance_metric", "Me", None), ("data", "Scr", None), ("chunk_index", "Z", None), ("n_chunks", "Z", None),
         ("progress", "bool", "false")])},
    typed_effects=[("__r.save(__p)", "written'", "{state} ++ [({p}, {r})]", {"r": "Dm", "p": "path"})],
)

CLI_EVALUATE_MODEL = dict(
    _CLI, file="src/batchie/cli/evaluate_model.py", func="main", name="src_cli_evaluate_model",
    params=[("Scr", "Type"), ("Th", "Type"), ("Pr", "Type"), ("PrT", "Type"), ("Ob", "Type"), ("Nm", "Type"), ("Ev", "Type"),
            ("L", "ev_lib Scr Th Pr PrT Ob Nm Ev"), ("argv", "ev_args")],
    returns="list (path * Ev)",
    vars={"written": "list (path * Ev)", "args": "ev_args", "screen": "Scr", "theta_holder": "handle", "theta_holders": "list Th",
          "thetas": "Th", "chain_ids": "list Z", "i": "Z", "t": "Th", "predictions": "PrT", "me": "Ev"},
    fields=_arg_fields("ev_args", "ev", {"screen": "path", "thetas": "list path", "output": "path"}),
    prims=[("get_args()", "argv", "ev_args"),
           ("Screen.load_h5(__p)", "!ev_load_screen L {p}", "Scr", {"p": "path"}),
           _HOLDER_HANDLE,
           ("__h.load_h5(__p)", "!ev_load_thetas L {p}", "Th", {"h": "handle", "p": "path"}),
           ("__h.concat(__l)", "!ev_concat_thetas L {l}", "Th", {"h": "handle", "l": "list Th"}),
           ("__t.n_thetas", "ev_n_thetas L {t}", "Z", {"t": "Th"}),
           ("[__i] * __n", "zrepeat {i} {n}", "list Z", {"i": "Z", "n": "Z"}),
           ("np.array(__l, dtype=int)", "{l}", "list Z", {"l": "list Z"}),        # a list of ints as an int array: the same values
           ("__m.T", "ev_transpose L {m}", "PrT", {"m": "Pr"}),
           ("__s.observations", "ev_observations L {s}", "Ob", {"s": "Scr"}),
           ("__s.sample_names", "ev_sample_names L {s}", "Nm", {"s": "Scr"})],
    kwcalls={"predict_viability_all": ("!ev_predict_all L {screen} {thetas}", "Pr", [("screen", "Scr", None), ("thetas", "Th", None)]),
             "ModelEvaluation": ("!ev_mk_eval L {predictions} {observations} {chain_ids} {sample_names}", "Ev",
                                 [("predictions", "PrT", None), ("observations", "Ob", None), ("chain_ids", "list Z", None),
                                  ("sample_names", "Nm", None)])},
    typed_effects=[("chain_ids.extend(__l)", "chain_ids'", "{state} ++ {l}", {"l": "list Z"}),
                   ("__r.save_h5(__p)", "written'", "{state} ++ [({p}, {r})]", {"r": "Ev", "p": "path"})],
)

ALL += [CLI_PRNG, CLI_CALCULATE_SCORES, CLI_SELECT_NEXT_PLATE, CLI_TRAIN_MODEL, CLI_REVEAL_PLATE, CLI_PREPARE, CLI_EXTRACT_METADATA,
        CLI_DISTANCE_MATRIX, CLI_EVALUATE_MODEL]
# ---- C13 / C11: the shipped generators, smoothers, the random hold-out, SparseCover and the combination filter, linked to the
# models of Model/Retro.v / RetroHoldout.v / RetroInit.v (the subjects of the C13 shape and C11 conservation theorems).  Conventions
# of the MergeMin link above: a Screen = the list of its experiments (`screen_t`), a Plate = its selection vector (`bvec`), a
# sample id = the sample's name (ids are ranks of sorted names) except in NPlatePerCellLine, whose dict is keyed by the integer
# ids; an array of row numbers = `list nat`; the recorded answers of the Generator still unread = `ds`.
_RG = dict(file="src/batchie/retrospective.py", out="SrcRetroGen.v", overload=True,
           imports="Model.Encode Model.Screen Model.Retro Model.Pairwise Model.RetroHoldout Model.RetroInit Generated.SrcRetro")
_ST = {"s": "screen_t"}
_LEN_Z = ("len(__l)", "zlen {l}", "Z")

# SampleSegregatingPermutationPlateGenerator._generate_plates
C13_SAMPLE_SEG = dict(
    _RG, cls="SampleSegregatingPermutationPlateGenerator", func="_generate_plates", name="src_sample_seg_generate_plates",
    pyparams=["self", "screen", "rng"],
    params=[("max_plate_size", "Z"), ("screen", "screen_t"), ("ds", "list draw")], returns="screen_t", return_state=["ds"],
    vars={"plate_indices": "list list nat", "sample_id": "name", "sample_indices": "list nat", "n_plates": "Z",
          "plates": "list list nat", "plate": "list nat", "plate_names": "list name", "idx": "Z", "indices": "list nat"},
    prims=[
        ("self.max_plate_size", "max_plate_size", "Z"),
        ("__s.unique_sample_ids", "sample_names {s}", "list name", _ST),              # ids = ranks of the sorted names
        ("np.arange(__s.size)[__s.sample_ids == __i]", "idx_where (in_sample {i}) {s}", "list nat", {"s": "screen_t", "i": "name"}),
        ("math.ceil(len(__a) / float(__b))", "!ceil_div_float (zlen {a}) {b}", "Z", {"a": "list nat", "b": "Z"}),
        _LEN_Z,
        ("np.array_split(__a, __n)", "!array_split_z {a} {n}", "list list nat", {"a": "list nat", "n": "Z"}),
        ("np.array([''] * __s.size, dtype=object)", "blank_names (length {s})", "list name", _ST),
        (_SCREEN_LABELLED, "!screen_labelled {s} {l}", "screen_t", {"s": "screen_t", "l": "list name"}),
    ],
    expr_state_calls=[("rng.permutation(__a)", ["ds"], "permutation_ints {a} ds", "list nat", {"a": "list nat"})],
    assign_effects=[("plate_names[__i] = f'generated_plate_{__k}'", "plate_names'", "!set_at {state} {i} (gen_name (Z.to_nat {k}))")],
    ignore=["logger.info(__a)"],
)

# FixedSizeSmoother / OptimalSizeSmoother._smooth_plates
_SIZE_PRIMS = [
    ("__s.plates", "plates_of {s}", "list bvec", _ST),
    ("__p.size", "plate_size {p}", "Z", {"p": "bvec"}),
    ("__p.selection_vector", "{p}", "bvec", {"p": "bvec"}),
    ("np.arange(__s.size)[__p.selection_vector]", "vec_positions {p}", "list nat", {"s": "screen_t", "p": "bvec"}),
    ("np.isin(np.arange(__s.size), __i)", "vof_idx (length {s}) {i}", "bvec", {"s": "screen_t", "i": "list nat"}),
    ("Plate(screen, __v)", "{v}", "bvec", {"v": "bvec"}),                  # a plate of `screen` is its selection vector
    ("np.zeros(__s.size, dtype=bool)", "repeat false (length {s})", "bvec", _ST),
    ("__a | __b", "vor {a} {b}", "bvec", {"a": "bvec", "b": "bvec"}),
    ("__s.subset(__v)", "subset_of {s} {v}", "subset_t", {"s": "screen_t", "v": "bvec"}),
    ("__s.to_screen()", "to_screen {s}", "screen_t", {"s": "subset_t"}),
]
_SIZE = dict(
    _RG, func="_smooth_plates", pyparams=["self", "screen", "rng"], returns="screen_t", return_state=["ds"],
    vars={"results": "list bvec", "plate": "bvec", "new_indices": "list nat", "new_selection_vector": "bvec",
          "final_selection_vector": "bvec", "plate_sizes": "list Z", "i": "Z", "optimal_size": "Z"},
    state_calls=[("rng.choice(__a, __n, replace=False)", ["ds"], "choice_ints {a} {n} ds", "list nat", {"a": "list nat", "n": "Z"})],
    ignore=["logger.info(__a)"],
)
C13_FIXED_SIZE = dict(
    _SIZE, cls="FixedSizeSmoother", name="src_fixed_size_smooth_plates",
    params=[("fixed_size", "Z"), ("screen", "screen_t"), ("ds", "list draw")],
    prims=[("self.plate_size", "fixed_size", "Z")] + _SIZE_PRIMS,
)
C13_OPTIMAL_SIZE = dict(
    _SIZE, cls="OptimalSizeSmoother", name="src_optimal_size_smooth_plates", unused_params=["self"],
    params=[("screen", "screen_t"), ("ds", "list draw")],
    prims=_SIZE_PRIMS + [
        ("np.sort(np.array(__l))", "sort_z {l}", "list Z", {"l": "list Z"}),
        ("np.argmax(__a)", "!argmax_z {a}", "Z", {"a": "list Z"}),
        ("np.arange(__n)", "zrange {n}", "list Z", {"n": "Z"}),
        ("__a * __b", "vmul_z {a} {b}", "list Z", {"a": "list Z", "b": "list Z"}),
        ("__n - __v", "rsub_z {n} {v}", "list Z", {"n": "Z", "v": "list Z"}),
        ("__a[__i]", "!list_get {a} {i}", "Z", {"a": "list Z", "i": "Z"}),
        _LEN_Z,
    ],
)
ALL += [C13_SAMPLE_SEG, C13_FIXED_SIZE, C13_OPTIMAL_SIZE]

# NPlatePerCellLineSmoother: the defaultdict is keyed by the integer sample ids (ranks of the sorted unique names of `screen`)
C13_NPLATE_SAMPLE_ID = dict(
    _RG, cls="NPlatePerCellLineSmoother", func="_get_plate_sample_id", name="src_nplate_get_plate_sample_id",
    pyparams=["self", "plate"], params=[("s", "screen_t"), ("plate", "bvec")], returns="Z", vars={},
    prims=[
        ("__p.unique_sample_ids", "plate_unique_sample_ids {p} s", "list Z", {"p": "bvec"}),
        _LEN_Z,
        ("__l[0]", "!first_item {l}", "Z", {"l": "list Z"}),
    ],
    raises=[("only valid for one-sample-per-plate designs", 4)],
)
C13_NPLATE = dict(
    _RG, cls="NPlatePerCellLineSmoother", func="_smooth_plates", name="src_nplate_smooth_plates",
    pyparams=["self", "screen", "rng"], unused_params=["rng"],
    params=[("min_n_cell_line_plates", "Z"), ("screen", "screen_t")], returns="screen_t",
    vars={"plate_counts": "dict", "plate": "bvec", "sample_names_by_id": "list name", "sample_id": "Z", "plate_count": "Z",
          "screen": "screen_t"},
    prims=[
        ("self.min_n_cell_line_plates", "min_n_cell_line_plates", "Z"),
        ("defaultdict(lambda: 0)", "[]", "dict"),
        ("__s.plates", "plates_of {s}", "list bvec", _ST),
        # the plates' parent is `screen` (they come from screen.plates, before `screen` is rebound)
        ("self._get_plate_sample_id(__p)", "!src_nplate_get_plate_sample_id screen' {p}", "Z", {"p": "bvec"}),
        ("__s.sample_mapping[0]", "sample_names {s}", "list name", _ST),     # the unique sample names, by id
        ("__s.sample_names != __n", "sample_name_ne {s} {n}", "bvec", {"s": "screen_t", "n": "name"}),
        ("__l[__i]", "!list_get {l} {i}", "name", {"l": "list name", "i": "Z"}),
        ("__s.subset(__v)", "subset_of {s} {v}", "subset_t", {"s": "screen_t", "v": "bvec"}),
        ("__s.to_screen()", "to_screen {s}", "screen_t", {"s": "subset_t"}),
    ],
    ignore=["logger.info(__a)"],
)

# BatchieEnsemblePlateSmoother._smooth_plates: each call is the translated wrapper smooth_plates (core.py) around the translated
# _smooth_plates of the class the source names, with the constructor argument the source passes
_SM = {"s": "screen_t"}
C13_ENSEMBLE = dict(
    _RG, cls="BatchieEnsemblePlateSmoother", func="_smooth_plates", name="src_ensemble_smooth_plates",
    pyparams=["self", "screen", "rng"],
    params=[("min_size", "Z"), ("n_iterations", "Z"), ("min_n_cell_line_plates", "Z"), ("screen", "screen_t"), ("ds", "list draw"),
            ("fuel", "nat")],
    returns="screen_t", return_state=["ds"], vars={"screen": "screen_t"},
    state_calls=[
        ("MergeMinPlateSmoother(min_size=self.min_size).smooth_plates(__s, rng)", ["ds"],
         "src_smooth_plates (fun s__ d__ => src_merge_min_smooth_plates min_size s__ d__ fuel) {s} ds", "screen_t", _SM),
        ("MergeTopBottomPlateSmoother(n_iterations=self.n_iterations).smooth_plates(__s, rng)", ["ds"],
         "src_smooth_plates (fun s__ d__ => dor r__ <- src_merge_tb_smooth_plates n_iterations s__; Ok (r__, d__)) {s} ds", "screen_t", _SM),
        ("OptimalSizeSmoother().smooth_plates(__s, rng)", ["ds"],
         "src_smooth_plates src_optimal_size_smooth_plates {s} ds", "screen_t", _SM),
        ("NPlatePerCellLineSmoother(min_n_cell_line_plates=self.min_n_cell_line_plates).smooth_plates(__s, rng)", ["ds"],
         "src_smooth_plates (fun s__ d__ => dor r__ <- src_nplate_smooth_plates min_n_cell_line_plates s__; Ok (r__, d__)) {s} ds",
         "screen_t", _SM),
    ],
)

# PlatePermutationPlateGenerator._generate_plates
C13_PLATE_PERMUTATION = dict(
    _RG, cls="PlatePermutationPlateGenerator", func="_generate_plates", name="src_plate_permutation_generate_plates",
    pyparams=["self", "screen", "rng"],
    params=[("force", "opt list name"), ("screen", "screen_t"), ("ds", "list draw")], returns="screen_t", return_state=["ds"],
    vars={"selection_vector": "bvec", "to_permute": "screen_t", "non_permuted": "opt screen_t", "new_plate_names": "list name",
          "permuted": "screen_t"},
    prims=[
        ("self.force_include_plate_names", "force", "opt list name"),
        ("~np.isin(__s.plate_names, __f)", "plate_not_in {s} {f}", "bvec", {"s": "screen_t", "f": "list name"}),
        ("np.ones(__s.size, dtype=bool)", "repeat true (length {s})", "bvec", _ST),
        ("np.any(~__v)", "existsb negb {v}", "bool", {"v": "bvec"}),
        ("~__v", "map negb {v}", "bvec", {"v": "bvec"}),
        ("__s.subset(__v)", "subset_of {s} {v}", "subset_t", {"s": "screen_t", "v": "bvec"}),
        ("__s.to_screen()", "to_screen {s}", "screen_t", {"s": "subset_t"}),
        ("__s.plate_names", "map r_plate {s}", "list name", _ST),
        (_SCREEN_RENAMED, "!screen_renamed {s} {n}", "screen_t", {"s": "screen_t", "n": "list name"}),
        ("__a.combine(__b)", "!combine_screens {a} {b}", "screen_t", {"a": "screen_t", "b": "screen_t"}),
    ],
    state_calls=[("rng.permutation(__a)", ["ds"], "permutation_names {a} ds", "list name", {"a": "list name"})],
)
ALL += [C13_NPLATE_SAMPLE_ID, C13_NPLATE, C13_ENSEMBLE, C13_PLATE_PERMUTATION]

# create_random_holdout (retrospective.py): conventions of C11_BALANCED_HOLDOUT; the single math.ceil(size * fraction) is the exact
# ceiling or Python's own value (`count`, see Model/RetroHoldout.v)
_COLS_R = ("treatment_names=__s.treatment_names[{i}], treatment_doses=__s.treatment_doses[{i}], observations=__s.observations[{i}], "
           "sample_names=__s.sample_names[{i}], plate_names=__s.plate_names[{i}], control_treatment_name=__s.control_treatment_name, "
           "observation_mask={m}, sample_mapping=__s.sample_mapping, treatment_mapping=__s.treatment_mapping")
C11_RANDOM_HOLDOUT = dict(
    _RG, func="create_random_holdout", name="src_random_holdout",
    pyparams=["screen", "fraction", "rng"],
    params=[("num", "Z"), ("den", "positive"), ("count", "opt Z"), ("screen", "screen_t"), ("ds", "list draw")],
    returns="(screen_t * screen_t)", return_state=["ds"],
    vars={"selection_vector": "bvec", "indices": "list nat", "keep_screen": "screen_t", "holdout_screen": "screen_t"},
    prims=[
        ("fraction < 0", "num <? 0", "bool"),
        ("fraction > 1", "Zpos den <? num", "bool"),
        ("np.zeros(__s.size, dtype=bool)", "repeat false (length {s})", "bvec", _ST),
        ("np.arange(__s.size)", "seq 0 (length {s})", "list nat", _ST),
        ("math.ceil(__s.size * fraction)", "ceil_size {s} num den count", "Z", _ST),
        ("Screen(" + _COLS_R.format(i="~__v", m="__s.observation_mask[~__v]") + ")", "!screen_without {s} {v}", "screen_t",
         {"s": "screen_t", "v": "bvec"}),
        ("Screen(" + _COLS_R.format(i="__v", m="np.ones(np.count_nonzero(__v), dtype=bool)") + ")", "!screen_observed_of {s} {v}",
         "screen_t", {"s": "screen_t", "v": "bvec"}),
    ],
    state_calls=[("rng.choice(__a, __n, replace=False)", ["ds"], "choose {a} {n} ds", "list nat", {"a": "list nat", "n": "Z"})],
    assign_effects=[("selection_vector[__i] = True", "selection_vector'", "set_true (length screen') {state} {i}")],
    raises=[("fraction must be between 0 and 1", 5)],
)
ALL += [C11_RANDOM_HOLDOUT]

# SparseCoverPlateGenerator._generate_and_unmask_initial_plate and its public wrapper (core.py).  A treatment id is `tid`
# (None = CONTROL_SENTINEL_VALUE, Model/RetroInit.v); `ctrl` = screen.control_treatment_name (it only enters screen.treatment_ids);
# a set of ids = any list of its elements; the 1-element array answered by rng.choice(a, size=1) = its element (`nat`).
# `selection_vector` is read by the while loop although only the for loop assigns it: it is predefined (empty), which is what
# the model needs when the screen has no sample (Python never reads it then: no treatment remains).
_TM = "list list tid"
_SCREEN_WITH = ("Screen(treatment_names=__s.treatment_names, treatment_doses=__s.treatment_doses, observations=__o, "
                "sample_names=__s.sample_names, plate_names=__p, control_treatment_name=__s.control_treatment_name, "
                "observation_mask=__m)")
_TID_PRIMS = [
    ("CONTROL_SENTINEL_VALUE", "None", "tid"),
    ("__s.treatment_ids", "treatment_ids ctrl {s}", _TM, _ST),
    ("np.isin(np.arange(__s.size), __i)", "vof_idx (length {s}) {i}", "bvec", {"s": "screen_t", "i": "list nat"}),
    ("np.isin(__a, __l)", "isin2 {a} {l}", "list bvec", {"a": _TM, "l": "list tid"}),
    ("np.any(__m, axis=1)", "any_rows {m}", "bvec", {"m": "list bvec"}),
    ("np.all(__m, axis=1)", "all_rows {m}", "bvec", {"m": "list bvec"}),
    ("~__m", "not2 {m}", "list bvec", {"m": "list bvec"}),
    ("~__v", "map negb {v}", "bvec", {"v": "bvec"}),
    ("__m.flatten()", "concat {m}", "list tid", {"m": _TM}),
    ("__s.subset(__v)", "subset_of {s} {v}", "subset_t", {"s": "screen_t", "v": "bvec"}),
    ("__s.to_screen()", "to_screen {s}", "screen_t", {"s": "subset_t"}),
]
C13_SPARSE_COVER = dict(
    _RG, cls="SparseCoverPlateGenerator", func="_generate_and_unmask_initial_plate", name="src_sparse_cover",
    pyparams=["self", "screen", "rng"],
    params=[("ctrl", "name"), ("reveal", "bool"), ("screen", "screen_t"), ("ds", "list draw"), ("fuel", "nat")],
    returns="screen_t", return_state=["ds"], while_fuel="fuel", while_cond=True,
    vars={"covered_treatments": "list tid", "chosen_selection_indices": "list nat", "sample_id": "name",
          "experiments_with_at_least_one_treatment_not_in_covered_treatments": "bvec", "selection_vector": "bvec",
          "selection_indices": "list nat", "chosen_selection_index": "nat", "remaining_treatments": "list tid",
          "experiments_with_at_least_one_treatment_in_remaining_treatments": "bvec", "final_plate_selection_vector": "bvec",
          "single_drug_experiments": "bvec", "plate_names": "list name", "observation_vector": "list Z"},
    predefine={"selection_vector": "[]"},
    prims=_TID_PRIMS + [
        ("self.reveal_single_treatment_experiments", "reveal", "bool"),
        ("set()", "[]", "list tid"),
        ("set(__l)", "{l}", "list tid", {"l": "list tid"}),
        ("list(__l)", "{l}", "list tid", {"l": "list tid"}),
        ("__s.unique_sample_ids", "sample_names {s}", "list name", _ST),
        ("__s.sample_ids == __i", "map (in_sample {i}) {s}", "bvec", {"s": "screen_t", "i": "name"}),
        ("__a & __b", "vand {a} {b}", "bvec", {"a": "bvec", "b": "bvec"}),
        ("__a | __b", "vor {a} {b}", "bvec", {"a": "bvec", "b": "bvec"}),
        ("__v.sum()", "Z.of_nat (vcount {v})", "Z", {"v": "bvec"}),
        ("np.arange(__v.size)[__m]", "!positions_of (length {v}) {m}", "list nat", {"v": "bvec", "m": "bvec"}),
        ("__a[__i]", "!rows_at {a} {i}", _TM, {"a": _TM, "i": "list nat"}),
        ("np.setdiff1d(__a, __l)", "setdiff_ids {a} {l}", "list tid", {"a": _TM, "l": "list tid"}),
        _LEN_Z,
        ("np.array(['initial_plate'] * __s.size, dtype=str)", "repeat initial_plate (length {s})", "list name", _ST),
        ("__s.observations.copy()", "map r_obs {s}", "list Z", _ST),
        (_SCREEN_WITH, "!screen_with {s} {o} {p} {m}", "screen_t", {"s": "screen_t", "o": "list Z", "p": "list name", "m": "bvec"}),
    ],
    state_calls=[
        ("rng.choice(__a, size=1)", ["ds"], "choose_one {a} ds", "nat", {"a": "list nat"}),
        ("rng.choice(__a, 1)", ["ds"], "choose_one {a} ds", "nat", {"a": "list nat"}),
    ],
    effects=[("covered_treatments.update(__x)", "covered_treatments'", "{state} ++ {x}")],
    assign_effects=[("plate_names[~__v] = 'unobserved_plate'", "plate_names'", "!label_unobserved {state} {v}")],
    ignore=["logger.info(__a)"],
)
C13_INITIAL_WRAPPER = dict(
    file="src/batchie/core.py", cls="InitialRetrospectivePlateGenerator", func="generate_and_unmask_initial_plate",
    out="SrcRetroGen.v", imports=_RG["imports"], name="src_generate_and_unmask_initial_plate",
    pyparams=["self", "screen", "rng"], params=[("f", "initial_inner"), ("screen", "screen_t"), ("ds", "list draw")],
    returns="screen_t", return_state=["ds"], vars={},
    prims=[("__s.is_observed", "forallb r_mask {s}", "bool", _ST)],       # Screen.is_observed = np.all(observation_mask)
    expr_state_calls=[("self._generate_and_unmask_initial_plate(__s, rng)", ["ds"], "f {s} ds", "screen_t", _ST)],
    raises=[("must be fully observed", 8)],
)
ALL += [C13_SPARSE_COVER, C13_INITIAL_WRAPPER]

# filter_dataset_to_treatments_that_appear_in_at_least_one_combo (data.py).  `arity` = the number of treatment columns;
# np.unique of ids -> any list of the same elements (only membership is observed); to_screen() runs the Screen constructor,
# whose checks reduce to the plate-uniform one here ([construct], as in the model)
C13_COMBO_FILTER = dict(
    _RG, file="src/batchie/data.py", func="filter_dataset_to_treatments_that_appear_in_at_least_one_combo", name="src_combo_filter",
    pyparams=["screen"], params=[("ctrl", "name"), ("arity", "nat"), ("screen", "screen_t")], returns="screen_t",
    vars={"treatment_ids": _TM, "treatment_selection_vector": "bvec", "treatments_to_select": "list tid",
          "treatments_to_select_plus_controls": "list tid", "filtered_treatment_names": "list name", "screen_selection_vector": "bvec"},
    prims=[
        ("__s.treatment_arity", "screen_arity arity", "Z", _ST),
        ("(__a == CONTROL_SENTINEL_VALUE).reshape(__a.shape)", "is_sentinel2 {a}", "list bvec", {"a": _TM}),
        ("np.in1d(__a, __l).reshape(__a.shape)", "isin2 {a} {l}", "list bvec", {"a": _TM, "l": "list tid"}),
        ("np.unique(__s.treatment_names[__v].flatten())", "unique_treatment_names {s} {v}", "list name", {"s": "screen_t", "v": "bvec"}),
        ("np.unique(__l)", "{l}", "list tid", {"l": "list tid"}),
        ("np.concatenate([__a, __b])", "{a} ++ {b}", "list tid", {"a": "list tid", "b": "list tid"}),
        ("__a[__v]", "rows_where {a} {v}", _TM, {"a": _TM, "v": "bvec"}),
    ] + [p for p in _TID_PRIMS if p[0] != "__s.to_screen()"] + [
        ("__s.to_screen()", "!construct {s}", "screen_t", {"s": "subset_t"}),
    ],
    ignore=["logger.info(__a)"],
    raises=[("Dataset must have at least 2 treatments", 7)],
)
ALL += [C13_COMBO_FILTER]

# PairwisePlateGenerator._generate_plates.  Treatment ids of the re-encoded combination screen are `nat` (ranks of its keys),
# group / sample ids ints; np.argsort's answer is a recorded answer like the Generator's (its tie-break is implementation-defined).
_IDM = "list list nat"
_GM = "list list opt Z"
_SCREEN_RENAMED_PW = ("Screen(treatment_names=__s.treatment_names, treatment_doses=__s.treatment_doses, observations=__s.observations, "
                      "observation_mask=np.zeros(__s.size, dtype=bool), sample_names=__s.sample_names, plate_names=__n.astype(str), "
                      "control_treatment_name=__s.control_treatment_name)")
C13_PAIRWISE = dict(
    _RG, cls="PairwisePlateGenerator", func="_generate_plates", name="src_pairwise_generate_plates",
    pyparams=["self", "screen", "rng"],
    params=[("ctrl", "name"), ("subset_size", "Z"), ("anchor_size", "Z"), ("screen", "screen_t"), ("ds", "list draw")],
    returns="screen_t", return_state=["ds"], coerce=[("nat", "Z", "Z.of_nat {x}")], eqb={"name": "name_eqb"},
    vars={"combo_mask": "bvec", "single_treatment_mask": "bvec", "combo_treatment_screen": "screen_t",
          "single_treatment_screen": "opt screen_t", "unique_treatments": "list nat", "unique_treatment_counts": "list nat",
          "anchor_dds": "list nat", "n_anchor_groups": "Z", "anchor_groups": _IDM, "remain_dds": "list nat", "n_remain_groups": "Z",
          "remain_groups": _IDM, "groupings": _IDM, "n_groups": "Z", "num_groups": "Z", "group_lookup": "dict", "group_id": "Z",
          "treatment_ids_in_group": "list nat", "treatment_id_in_group": "nat", "treatment_group_ids": _GM, "n_control": "Z",
          "treatment_group_ids_sorted": "list list Z", "sample_id_col_vector": "list list Z", "grouping_tuples": "list list Z",
          "unique_grouping_tuples": "list list Z", "new_plate_names": "list name", "idx": "Z", "unique_grouping_tuple": "list Z",
          "mask": "bvec", "combo_screen_with_generated_plates": "screen_t", "sample_name": "name", "n_to_assign": "Z",
          "eligible_plate_names": "list name", "assignments": "list name", "single_screen_with_generated_plates": "screen_t"},
    prims=[
        ("self.anchor_size", "anchor_size", "Z"),
        ("CONTROL_SENTINEL_VALUE", "Generated.Consts.CONTROL_SENTINEL_VALUE", "Z"),
        ("screen.treatment_ids == CONTROL_SENTINEL_VALUE", "control_entries ctrl screen'", "list bvec"),
        ("np.any(__m, axis=1)", "any_in_rows {m}", "bvec", {"m": "list bvec"}),
        ("~__v", "map negb {v}", "bvec", {"v": "bvec"}),
        ("__v.any()", "existsb (fun b__ => b__) {v}", "bool", {"v": "bvec"}),
        ("__s.subset(__v)", "subset_of {s} {v}", "subset_t", {"s": "screen_t", "v": "bvec"}),
        ("__s.to_screen()", "to_screen {s}", "screen_t", {"s": "subset_t"}),
        ("np.unique(__s.treatment_ids, return_counts=True)", "(unique_ids ctrl {s}, id_counts ctrl {s})", "(list nat * list nat)", _ST),
        ("__a[:__n]", "slice_to {a} {n}", "list nat", {"a": "list nat", "n": "Z"}),
        ("__u[__i]", "!take_at {u} {i}", "list nat", {"u": "list nat", "i": "list nat"}),
        ("len(__a) // self.subset_size", "!floor_div (zlen {a}) subset_size", "Z", {"a": "list nat"}),
        ("np.array_split(__a, __n)", "!array_split_z {a} {n}", _IDM, {"a": "list nat", "n": "Z"}),
        ("np.setdiff1d(__a, __b)", "setdiff_sorted {a} {b}", "list nat", {"a": "list nat", "b": "list nat"}),
        _LEN_Z,
        ("np.vectorize(__d.get)(__s.treatment_ids)", "lookup_all {d} (screen_ids ctrl {s})", _GM, {"d": "dict", "s": "screen_t"}),
        ("np.sum(__g == CONTROL_SENTINEL_VALUE)", "count_sentinel {g}", "Z", {"g": _GM}),
        ("np.sort(__g, axis=1)", "!sort_rows {g}", "list list Z", {"g": _GM}),
        ("__s.sample_ids[:, np.newaxis]", "sample_id_column {s}", "list list Z", _ST),
        ("np.hstack([__a, __b])", "hstack2 {a} {b}", "list list Z", {"a": "list list Z", "b": "list list Z"}),
        ("np.unique(__a, axis=0)", "unique_rows {a}", "list list Z", {"a": "list list Z"}),
        ("np.array([''] * __s.size, dtype=object)", "blank_names (length {s})", "list name", _ST),
        ("(__a == __t).all(axis=1)", "rows_equal {a} {t}", "bvec", {"a": "list list Z", "t": "list Z"}),
        (_SCREEN_RENAMED_PW, "!screen_renamed {s} {n}", "screen_t", {"s": "screen_t", "n": "list name"}),
        ("np.unique(__s.sample_names)", "sample_names {s}", "list name", _ST),
        ("(__s.sample_names == __n).sum()", "Z.of_nat (vcount (map (in_sample {n}) {s}))", "Z", {"s": "screen_t", "n": "name"}),
        ("np.unique(__s.plate_names[__s.sample_names == __n])", "plates_of_sample_named {s} {n}", "list name", {"s": "screen_t", "n": "name"}),
        ("__a.combine(__b)", "!combine_screens {a} {b}", "screen_t", {"a": "screen_t", "b": "screen_t"}),
    ],
    expr_state_calls=[
        ("np.argsort(-__c)", ["ds"], "argsort_desc {c} ds", "list nat", {"c": "list nat"}),
        ("rng.permutation(__a)", ["ds"], "permutation_ints {a} ds", "list nat", {"a": "list nat"}),
        ("rng.choice(range(__n), size=__k, replace=True)", ["ds"], "choice_range {n} {k} ds", "list nat", {"n": "Z", "k": "Z"}),
        ("rng.choice(__a, size=__n, replace=True)", ["ds"], "choice_names {a} {n} ds", "list name", {"a": "list name", "n": "Z"}),
    ],
    assign_effects=[
        ("treatment_group_ids[treatment_group_ids == CONTROL_SENTINEL_VALUE] = __v", "treatment_group_ids'", "!store_at_sentinel {state} {v}"),
        ("new_plate_names[mask] = f'generated_plate_{__k}'", "new_plate_names'", "!set_where {state} mask' (gen_name (Z.to_nat {k}))"),
        # the screen here is the Optional single_treatment_screen (assignment effects take their holes as they are): unwrapped
        ("new_plate_names[__s.sample_names == __n] = assignments", "new_plate_names'",
         "!(dor s__ <- unwrap {s}; store_where {state} (map (in_sample {n}) s__) assignments')"),
    ],
    raises=[("should be filtered before using this method", 6)],
)
ALL += [C13_PAIRWISE]

# ---- C20: models/main.py ModelEvaluation.save_h5 / load_h5 (vocabulary: last part of Model/Metrics.v; proofs Proofs/C20SourceIO.v) ----
# The HDF5 file is `evraw`: its datasets by name, in creation order.  Trusted per entry, ONE h5py call / attribute read each:
#   h5py.File(fn, "w") = a new empty file;  h5py.File(fn, "r") = what the file holds (the parameter h5)
#   f.create_dataset(NAME, data=d, compression="gzip")  appends (NAME, d) to the datasets; an existing NAME raises
#   f[NAME][:]                                          the stored array (KeyError when absent, tag 32 for another kind)
#   self.predictions / .observations / .chain_ids / .sample_names   run the translated properties; the 2-d predictions array is
#       the stored rows with shape[1] = the parameter ncols (as in C20_EV_INIT / C20_EV_INTER_CHAIN)
#   encode_string_array / decode_string_array (batchie.data) are translated themselves (C20_EVIO_CODEC); inside them
#       arr.size == 0, np.empty(arr.shape, dtype=...) (= arr where it has no element), np.char.encode / decode (the identity on
#       the strings of an array WITH elements; numpy answers an array without elements with a float64 array: an error)
#   cls(predictions=, observations=, chain_ids=, sample_names=)   a fresh instance initialised by the translated __init__
# NAME is matched literally per dataset: an unknown name has no primitive and stops the build.  str arrays (`list pyname`)
# and bytes arrays (`list bstr`) are different type names, so a missing codec call is refused.
_C20_IO = dict(file="src/batchie/models/main.py", cls="ModelEvaluation", out="SrcEvalIO.v",
               imports="Model.Metrics Generated.SrcMetrics", overload=True)
_EVIO_KINDS = [("predictions", "EV_F2", "evraw_read_f2", "mat2"), ("observations", "EV_F1", "evraw_read_f1", _QS),
               ("chain_ids", "EV_I1", "evraw_read_i1", _ZS), ("sample_names", "EV_S1", "evraw_read_s1", "list bstr")]


def _evio_codec(func, src_t, dst_t, call, empty):
    """the module-level helper `func` of data.py on a 1-d array: the `arr.size == 0` guard, np.empty, np.char.<codec>"""
    return dict(file="src/batchie/data.py", out="SrcEvalIO.v", imports="Model.Metrics Generated.SrcMetrics",
                func=func, name="src_ev_" + func, pyparams=["arr"], params=[("arr", src_t)], returns=dst_t, vars={},
                prims=[("arr.size == 0", "ev_arr_empty arr'", "bool"),
                       (empty, "!ev_empty_like arr'", dst_t),
                       (call, "!ev_char_codec arr'", dst_t)])


C20_EVIO_CODEC = [_evio_codec("encode_string_array", "list pyname", "list bstr", "np.char.encode(arr)", "np.empty(arr.shape, dtype='S1')"),
                  _evio_codec("decode_string_array", "list bstr", "list pyname", "np.char.decode(arr, 'utf-8')", "np.empty(arr.shape, dtype=str)")]
# the property ModelEvaluation.sample_names (`return self._sample_names`)
C20_EV_SAMPLE_NAMES = dict(_C20_EV, func="sample_names", name="src_ev_sample_names", returns="list list Z", fields=_EV_FIELDS4,
                           out="SrcEvalIO.v", imports="Model.Metrics Generated.SrcMetrics")
C20_EVIO_SAVE = dict(
    _C20_IO, func="save_h5", name="src_ev_save_h5", pyparams=["self", "fn"],
    params=[("ncols", "nat"), ("self", "evaluation")], returns="evraw",       # returns what has been written to `fn`
    vars={"f": "evraw"},
    contexts=[("h5py.File(fn, 'w')", "evraw_empty", "evraw")],
    prims=[("self.predictions", "!(dor p__ <- src_ev_predictions self'; Ok (as_mat2 ncols p__))", "mat2"),
           ("self.observations", "!src_ev_observations self'", _QS),
           ("self.chain_ids", "!src_ev_chain_ids self'", _ZS),
           ("self.sample_names", "!src_ev_sample_names self'", "list pyname"),
           ("encode_string_array(__a)", "!src_ev_encode_string_array {a}", "list bstr", {"a": "list pyname"})],
    effects=[("f.create_dataset('%s', data=__d, compression='gzip')" % n, "f'", "!evraw_create {state} EK_%s (%s {d})" % (n, k))
             for n, k, _, _ in _EVIO_KINDS],
    implicit_return="{f}",
)
C20_EVIO_LOAD = dict(
    _C20_IO, func="load_h5", name="src_ev_load_h5", pyparams=["cls", "fn"],
    params=[("h5", "evraw")], returns="evaluation",       # h5 = what the file at `fn` holds
    vars={"f": "evraw", "predictions": "mat2", "observations": _QS, "chain_ids": _ZS, "sample_names": "list pyname"},
    contexts=[("h5py.File(fn, 'r')", "h5", "evraw")], with_return=True,
    prims=[("__f['%s'][:]" % n, "!%s {f} EK_%s" % (r, n), t, {"f": "evraw"}) for n, _, r, t in _EVIO_KINDS]
          + [("decode_string_array(__a)", "!src_ev_decode_string_array {a}", "list pyname", {"a": "list bstr"})],
    kwcalls={"cls": ("!src_ev_init ev_blank (fst {predictions}) (snd {predictions}) {observations} {chain_ids} {sample_names}", "evaluation",
                     [("predictions", "mat2", None), ("observations", _QS, None), ("chain_ids", _ZS, None),
                      ("sample_names", "list pyname", None)])},
)
ALL += C20_EVIO_CODEC + [C20_EV_SAMPLE_NAMES, C20_EVIO_SAVE, C20_EVIO_LOAD]

# ---- C06: ChunkedScoresHolder.__init__ / get_score / save_h5 / load_h5 (vocabulary: last part of Model/Scores.v; proofs
# Proofs/C06SourceIO.v).  The object is `pyholder` (its four attributes; typed fields), a float score its order key `skey`,
# the HDF5 file `shraw` (datasets and attributes by name).  Trusted per entry, ONE numpy / h5py call each:
#   np.zeros(n, dtype=FloatingPointType / int)      n zeros (the key of 0.0 is 0), ValueError for a negative n
#   a == v                                          elementwise;   a[mask]  boolean-mask selection (IndexError on another length)
#   a.item()                                        the only element of an array of size 1, else ValueError
#   h5py.File(fn, "w") = a new empty file;  h5py.File(fn, "r") = what the file holds (the parameter h5)
#   f.create_dataset(NAME, data=d)                  appends (NAME, d); an existing NAME raises
#   f.attrs[NAME] = v / f.attrs[NAME]               set / read an attribute (KeyError when absent)
#   f[NAME][:]                                      the stored array (KeyError when absent, tag 32 for another kind)
#   len(a);  cls(n) = a fresh instance initialised by the translated __init__
_PH = "pyholder"
_C06_IO = dict(
    file="src/batchie/scoring/main.py", cls="ChunkedScoresHolder", out="SrcHolderIO.v", imports="Model.Scores", overload=True,
    fields={"size": (_PH, "Z", "ph_size {obj}", "set_ph_size {obj} {val}"),
            "scores": (_PH, "list skey", "ph_scores {obj}", "set_ph_scores {obj} {val}"),
            "plate_ids": (_PH, "list Z", "ph_pids {obj}", "set_ph_pids {obj} {val}"),
            "current_index": (_PH, "Z", "ph_cur {obj}", "set_ph_cur {obj} {val}")},
)
C06_HOLDER_INIT = dict(
    _C06_IO, func="__init__", name="src_holder_init", pyparams=["self", "size"],
    params=[("self", _PH), ("size", "Z")], returns=_PH, vars={},
    prims=[("np.zeros(__n, dtype=FloatingPointType)", "!np_zeros_keys {n}", "list skey", {"n": "Z"}),
           ("np.zeros(__n, dtype=int)", "!np_zeros_keys {n}", "list Z", {"n": "Z"})],
    implicit_return="{self}",
)
C06_HOLDER_GET_SCORE = dict(
    _C06_IO, func="get_score", name="src_holder_get_score", pyparams=["self", "plate_id"],
    params=[("self", _PH), ("plate_id", "Z")], returns="skey", vars={},
    prims=[("__a == __v", "np_eq_scalar_z {a} {v}", "list bool", {"a": "list Z", "v": "Z"}),
           ("__a[__m]", "!mask_select {a} {m}", "list skey", {"a": "list skey", "m": "list bool"}),
           ("__a.item()", "!array_only {a}", "skey", {"a": "list skey"})],
)
C06_HOLDER_SAVE = dict(
    _C06_IO, func="save_h5", name="src_holder_save_h5", pyparams=["self", "fn"],
    params=[("self", _PH)], returns="shraw", vars={"f": "shraw"},       # returns what has been written to `fn`
    contexts=[("h5py.File(fn, 'w')", "shraw_empty", "shraw")],
    typed_effects=[("f.create_dataset('scores', data=__d)", "f'", "!shraw_create {state} SK_scores (SH_F1 {d})", {"d": "list skey"}),
                   ("f.create_dataset('plate_ids', data=__d)", "f'", "!shraw_create {state} SK_plate_ids (SH_I1 {d})", {"d": "list Z"})],
    assign_effects=[("f.attrs['current_index'] = __v", "f'", "shraw_set_attr {state} SK_current_index {v}")],
    implicit_return="{f}",
)
C06_HOLDER_LOAD = dict(
    _C06_IO, func="load_h5", name="src_holder_load_h5", pyparams=["cls", "fn"],
    params=[("h5", "shraw")], returns=_PH,                                # h5 = what the file at `fn` holds
    vars={"f": "shraw", "scores": "list skey", "plate_ids": "list Z", "current_index": "Z", "scores_holder": _PH},
    contexts=[("h5py.File(fn, 'r')", "h5", "shraw")],
    prims=[("__f['scores'][:]", "!shraw_read_f1 {f} SK_scores", "list skey", {"f": "shraw"}),
           ("__f['plate_ids'][:]", "!shraw_read_i1 {f} SK_plate_ids", "list Z", {"f": "shraw"}),
           ("__f.attrs['current_index']", "!shraw_attr {f} SK_current_index", "Z", {"f": "shraw"}),
           ("len(__a)", "Z.of_nat (length {a})", "Z", {"a": "list skey"}),
           ("cls(__n)", "!src_holder_init ph_blank {n}", _PH, {"n": "Z"})],
)
ALL += [C06_HOLDER_INIT, C06_HOLDER_GET_SCORE, C06_HOLDER_SAVE, C06_HOLDER_LOAD]

# ---- C20: models/main.py correlation_matrix, and predict_viability_avg once more with NaN as a VALUE (vocabulary: last part
# of Model/Corr.v; proofs Proofs/C20SourceCorr.v).  A float is `nq` = option Qc (None = NaN); every numpy operator is lifted
# (a NaN operand gives NaN); x / 0 with x != 0 (inf) is the unmodelled tag 96.  2-d arrays are lists of rows (`list nvec`),
# a keepdims row is `nvec`, a keepdims column `ncol`.  The screen is (tm, sm, arity) as in C20_SPACE plus `rows` = the
# (sample id, sample name key) pairs of its experiments; the thetas are the function f (theta index, sample id, treatment
# ids) -> prediction of the model (Corr.v Section Corr), nthetas their number.
_NV, _NM = "nvec", "list nvec"
C20_PREDICT_AVG_NAN = dict(
    file="src/batchie/models/main.py", func="predict_viability_avg", out="SrcCorr.v", overload=True,
    imports="Lib.Num Model.Metrics Model.Synergy Model.Corr Generated.SrcSpace",
    name="src_predict_viability_avg_nan", pyparams=["screen", "thetas"], params=[("size", "nat"), ("per_theta", "list theta_n")],
    returns=_NV, vars={"result": _NV, "theta_index": "Z", "theta": "theta_n", "sub_result": _NV},
    prims=[
        ("screen.size", "Z.of_nat size", "Z"),
        ("np.zeros((__n,), dtype=FloatingPointType)", "nv_zeros {n}", _NV, {"n": "Z"}),
        ("thetas.n_thetas", "Z.of_nat (length per_theta)", "Z"),
        ("thetas.get_theta(__i)", "!list_get per_theta {i}", "theta_n", {"i": "Z"}),       # the i-th theta (C10: get_theta)
        ("__t.predict_viability(screen)", "{t}", _NV, {"t": "theta_n"}),
        ("np.isnan(__x)", "nv_isnan {x}", _BS, {"x": _NV}),
        ("__m.any()", "np_any1 {m}", "bool", {"m": _BS}),
        ("__a + __b", "!nv_add {a} {b}", _NV, {"a": _NV, "b": _NV}),
        ("__v / __n", "!nv_div_int {v} {n}", _NV, {"v": _NV, "n": "Z"}),
    ],
    raises=[("NaN predictions were created", 1)],
)
C20_CORR = dict(
    file="src/batchie/models/main.py", func="correlation_matrix", out="SrcCorr.v", overload=True,
    imports="Lib.Num Model.Metrics Model.Synergy Model.Corr Generated.SrcSpace",
    name="src_correlation_matrix", pyparams=["screen", "thetas"],
    params=[("orc", "oracle"), ("f", "nat -> Z -> list Z -> Qcanon.Qc"), ("tm", "tmap3"), ("sm", _PAIRS), ("arity", "nat"),
            ("nthetas", "nat"), ("rows", _PAIRS)],
    returns="corr_frame",
    vars={"predictions": _NM, "index": _ZS, "id_to_name": "dict", "sample_id": "Z", "combinatoric_space": "(list Z * list list Z)",
          "mu": _NV, "X": _NM, "X_": _NM, "corr": _NM},
    prims=[
        ("screen.sample_ids", "map fst rows", _ZS), ("screen.sample_names", "map snd rows", _ZS),
        ("screen.unique_sample_ids", "sorted_unique (map fst rows)", _ZS),          # np.unique(self.sample_ids)
        ("zip(__a, __b)", "combine {a} {b}", _PAIRS, {"a": _ZS, "b": _ZS}),
        ("dict(__p)", "dict_of_pairs {p}", "dict", {"p": _PAIRS}),
        ("__d[__k]", "!dict_read {d} {k}", "Z", {"d": "dict", "k": "Z"}),
        # the callees run their translations; Screen.size of the space = the number of its sample ids
        ("generate_full_combinatoric_space(__s, screen)", "!src_generate_full_combinatoric_space tm sm arity {s}",
         "(list Z * list list Z)", {"s": "Z"}),
        ("predict_viability_avg(__s, thetas)", "!src_predict_viability_avg_nan (length (fst {s})) (thetas_on f nthetas {s})", _NV,
         {"s": "(list Z * list list Z)"}),
        ("np.stack(__l)", "!nm_stack {l}", _NM, {"l": _NM}),
        ("np.mean(__p, axis=0, keepdims=True)", "!nm_mean0 {p}", _NV, {"p": _NM}),
        ("__p - __m", "!nm_sub_row {p} {m}", _NM, {"p": _NM, "m": _NV}),
        ("np.square(__x)", "nm_square {x}", _NM, {"x": _NM}),
        ("np.sum(__x, axis=1, keepdims=True)", "nm_sum1 {x}", "ncol", {"x": _NM}),
        ("np.sqrt(__c)", "nc_sqrt orc {c}", "ncol", {"c": "ncol"}),
        ("__x / __c", "!nm_div_col {x} {c}", _NM, {"x": _NM, "c": "ncol"}),
        ("np.einsum('ik, jk->ij', __a, __b)", "!nm_einsum_ik_jk {a} {b}", _NM, {"a": _NM, "b": _NM}),
        ("pandas.DataFrame(__c, index=__i, columns=__j)", "mk_frame {c} {i} {j}", "corr_frame", {"c": _NM, "i": _ZS, "j": _ZS}),
    ],
)
ALL += [C20_PREDICT_AVG_NAN, C20_CORR]
# ---- C19, continued: main() of nextflow/scripts/batchie.py (vocabulary: end of Model/Orchestrate.v; proofs: Proofs/C19SourceMain.v).
# main() runs in a world `w` (no variable of the source): the output directory as it is now, the crash schedule that is left,
# the calls made so far.  The mode dispatch, the variable run_next holding one of the two TRANSLATED functions, the while-loop
# (on explicit fuel), the test `if not should_run_again: break` and the arguments of the call come from the translation.
_MRES = dict(type="mres", bind="dom", ok="MOk", fold="mfold", unwrap="munwrap", bind_quote="", **{"while": "mwhile"})
C19_MAIN = dict(
    file="nextflow/scripts/batchie.py", out="SrcOrchMain.v", imports="Model.Orchestrate Generated.SrcOrchestrate", monad=_MRES,
    func="main", name="src_main", pyparams=[],
    params=[("n", "nat"), ("fuel", "nat"), ("argv", "margs"), ("extra", "eargs"), ("w", "world")],
    returns="world", implicit_return="w", while_fuel="fuel", tail_dup_raise=True,
    vars={"args": "margs", "remaining_args": "eargs", "run_next": "stepfn", "should_run_again": "bool"},
    fields={"mode": ("margs", "modename", "a_mode {obj}", "field_of_the_parsed_arguments_is_never_stored {obj} {val}"),
            "batch_size": ("margs", "Z", "a_batch_size {obj}", "field_of_the_parsed_arguments_is_never_stored {obj} {val}")},
    eqb={"modename": "modename_eqb"},
    prims=[
        ("get_args()", "(argv, extra)", "(margs * eargs)"),                      # get_args() is not translated: it yields the parsed arguments
        ("'retrospective'", "NRetrospective", "modename"),                       # the two strings argparse's `choices` admits
        ("'prospective'", "NProspective", "modename"),
        # a function name is the translated function (C19_RETRO / C19_PROSP); the world of main()'s link has no torn marker
        # (a published file appears atomically there): the function runs on the tree with the empty torn set
        ("run_next_retrospective_step", "(fun f => src_run_next_retrospective_step (f, []))", "stepfn"),
        ("run_next_prospective_step", "(fun f => src_run_next_prospective_step (f, []))", "stepfn"),
        ("os.path.abspath(args.outdir)", "OutDir", "opath"),                     # THE output directory of the world
        ("os.path.abspath(args.screen)", "SInput", "spath"),                     # the screen the operator gave this invocation
    ],
    # one call of the function held in run_next, in the world (Orchestrate.world_call)
    state_calls=[("__f(output_dir=__o, input_screen=__s, extra_args=__e, batch_size=__b)", ["w"],
                  "world_call n {f} w {o} {s} {e} {b}", "bool", {"f": "stepfn", "o": "opath", "s": "spath", "e": "eargs", "b": "Z"})],
    raises=[("Unknown mode", "MEnd IRaised w")],                                 # ValueError before any call: the world is untouched
)
ALL += [C19_MAIN]

# ---- C19, continued: the four run_* command builders (vocabulary: end of Model/Orchestrate.v; proofs: Proofs/C19SourceCmd.v).
# A command line is `list (option word)`: every item of the list literal is coerced to `opt word` (a literal / get_main_nf_file() /
# the work directory are words; a screen path argument may be None; output_dir, experiment_name, the two glob patterns are
# words by their type).  `acts` (no variable of the source) is the list of file-system actions of the calling run_next_* so far;
# the builder returns it extended by the launch, or raises after it.
def _lit(s):
    assert all(c.isalnum() or c in "_-=" for c in s), s
    return (repr(s), "WLit [%s] (* %s *)" % ("; ".join(str(ord(c)) for c in s), s), "word")


_LITERALS = ["nextflow", "run", "--mode", "retrospective", "prospective", "next_plate", "--screen", "--training_screen",
             "--test_screen", "--name", "--outdir", "--initialize", "true", "false", "-work-dir", "--reveal", "--thetas",
             "--distance_matrix"]
_OW = "opt word"
_CMD = dict(
    file="nextflow/scripts/batchie.py", out="SrcOrchCmd.v", imports="Model.Orchestrate", monad=_SRES,
    returns="list action", implicit_return="acts", list_elem_type=_OW,
    coerce=[("opt spath", _OW, "option_map WScreen {x}"), ("step", _OW, "Some (WJob {x})"), ("ename", _OW, "Some (WName {x})"),
            ("tglob", _OW, "Some (word_of_tglob {x})"), ("dglob", _OW, "Some (word_of_dglob {x})")],
    prims=[_lit(s) for s in _LITERALS] + [
        ("get_main_nf_file()", "WMainNf", "word"),
        ("os.path.join(output_dir, 'work')", "WWork output_dir'", "word"),
        ("extra_args", "map extra_word extra_args'", "list opt word"),          # the operator's extra words, opaque
        ("'--excludes={}'.format(','.join(__x))", "WExcludes {x}", "word", {"x": "list Z"}),
    ],
    typed_effects=[
        # the f-string is evaluated before the process is started: ' '.join raises TypeError on a None item
        ("logger.info(f\"Running command: {' '.join(__c)}\")", "acts", "!join_words {state} {c}", {"c": "list opt word"}),
        ("subprocess.check_call(__c, cwd=get_repository_root())", "acts", "!check_call {state} {c}", {"c": "list opt word"}),
    ],
)
_BUILDER_PARAMS = [("acts", "list action"), ("output_dir", "step")]
_TAIL_PARAMS = [("experiment_name", "ename"), ("extra_args", "eargs")]
C19_RUN_INITIAL = dict(
    _CMD, func="run_initial_plate", name="src_run_initial_plate", pyparams=["output_dir", "screen", "experiment_name", "extra_args"],
    params=_BUILDER_PARAMS + [("screen", "opt spath")] + _TAIL_PARAMS, vars={"cmd": "list opt word"})
C19_RUN_FIRST = dict(
    _CMD, func="run_first_batch_plate", name="src_run_first_batch_plate",
    pyparams=["output_dir", "training_screen", "test_screen", "experiment_name", "extra_args"],
    params=_BUILDER_PARAMS + [("training_screen", "opt spath"), ("test_screen", "opt spath")] + _TAIL_PARAMS, vars={"cmd": "list opt word"})
C19_RUN_FIRST_PROSP = dict(
    _CMD, func="run_first_prospective_batch_plate", name="src_run_first_prospective_batch_plate",
    pyparams=["output_dir", "screen", "experiment_name", "extra_args"],
    params=_BUILDER_PARAMS + [("screen", "opt spath")] + _TAIL_PARAMS, vars={"cmd": "list opt word"})
C19_RUN_SUBSEQUENT = dict(
    _CMD, func="run_subsequent_batch_plate", name="src_run_subsequent_batch_plate",
    pyparams=["output_dir", "screen", "thetas", "dist_chunks", "experiment_name", "extra_args", "excludes"], pydefaults=["None"],
    params=_BUILDER_PARAMS + [("screen", "opt spath"), ("thetas", "tglob"), ("dist_chunks", "dglob")] + _TAIL_PARAMS
    + [("excludes", "opt list Z")], vars={"args": "list opt word"})
ALL += [C19_RUN_INITIAL, C19_RUN_FIRST, C19_RUN_FIRST_PROSP, C19_RUN_SUBSEQUENT]

# ---- C19, continued: dir_sort_key (the key both `sorted(..., key=dir_sort_key)` of examine use, and the index examine reads;
# proofs: Proofs/C19SourceCmd.v).  Here a path is its NAME (list of components, each a string); the theorem ties the name
# "…/iter_<i>" / "…/plate_<j>" to the index primitives iter_index / plate_index of C19_EXAMINE.
C19_DIR_SORT_KEY = dict(
    file="nextflow/scripts/batchie.py", out="SrcOrchCmd.v", imports="Model.Orchestrate", monad=_SRES,
    func="dir_sort_key", name="src_dir_sort_key", pyparams=["x"], params=[("x", "fspath")], returns="Z", vars={},
    prims=[("os.path.basename(__p)", "basename {p}", "str", {"p": "fspath"}),          # the last component
           ("__s.split('_')", "split_on 95 {s}", "list str", {"s": "str"}),            # 95 = "_"
           ("__l[1]", "!snth 1 {l}", "str", {"l": "list str"}),                        # IndexError without a second piece
           ("int(__s)", "!int_of_str {s}", "Z", {"s": "str"})],                        # ValueError unless a decimal numeral
)
ALL += [C19_DIR_SORT_KEY]
# ---- C14 / C13 / C11: the small helpers of data.py that the links above use as PRIMITIVES, translated themselves: Plate.plate_id /
# plate_name / __lt__ / merge, the one-line properties of ScreenBase on both kinds of receiver, Screen.combine,
# common.select_unique_zipped_numpy_arrays and filter_dataset_to_unique_treatments (vocabulary: end of Model/Views.v; generated file
# Generated/SrcPlates.v; proofs Proofs/C14SourceHelpers.v, consistency with the primitives of the C11 / C13 configurations in
# Proofs/C13SourceHelpers.v).  Objects as in the C14 block: a Screen object is `pyscreen` = (identity tag, contents), a ScreenSubset /
# Plate object a `view`.  Trusted per entry: one attribute read / numpy call each; calls of translated methods run their translations.
_H14 = dict(file="src/batchie/data.py", out="SrcPlates.v", overload=True,
            imports="Generated.Consts Model.Encode Model.Screen Model.Views Generated.SrcEncode Generated.SrcViews")
_H_LEN = ("len(__l)", "Z.of_nat (length {l})", "Z")
_H_UNIQUE = ("np.unique(__a)", "sort_uniq Z.compare {a}", "list Z", {"a": "list Z"})             # sorted distinct values
_H_UNIQUE2 = ("np.unique(__a)", "np_unique2 {a}", "list Z", {"a": "(arr2 Z)"})                    # of a 2-d array: of all its entries
_H_ALL = ("np.all(__a)", "np_all {a}", "bool", {"a": "list bool"})
_H_SHAPE0 = ("__a.shape[0]", "Z.of_nat (length {a})", "Z", {"a": "list Z"})
_H_SHAPE1 = ("__a.shape[1]", "arr2_shape1 {a}", "Z", {"a": "(arr2 Z)"})
_H_SENTINEL = ("CONTROL_SENTINEL_VALUE", "CONTROL_SENTINEL_VALUE", "Z")                        # Generated/Consts.v: read from common.py
_H_SETDIFF = ("np.setdiff1d(__a, __b)", "np_setdiff1d {a} {b}", "list Z", {"a": "list Z", "b": "list Z"})
_H_NUMPY = [_H_LEN, _H_UNIQUE, _H_UNIQUE2, _H_ALL, _H_SHAPE0, _H_SHAPE1, _H_SENTINEL, _H_SETDIFF]
# what `self.<attribute>` means on each kind of receiver: the stored array of a Screen, the translated property of a ScreenSubset
# (a[mask] keeps the columns of a 2-d array: the view's treatment_ids have the parent's column count)
_ON_SCREEN = [
    ("self.plate_ids", "s_pids (snd self')", "list Z"), ("self.sample_ids", "s_sids (snd self')", "list Z"),
    ("self.treatment_ids", "screen_tids2 (snd self')", "(arr2 Z)"), ("self.observation_mask", "screen_mask (snd self')", "list bool")]
_ON_VIEW = [
    ("self.plate_ids", "!src_view_plate_ids self'", "list Z"), ("self.sample_ids", "!src_view_sample_ids self'", "list Z"),
    ("self.treatment_ids", "!(dor t__ <- src_view_treatment_ids self'; Ok (s_arity (v_parent self'), t__))", "(arr2 Z)"),
    ("self.observation_mask", "!src_view_observation_mask self'", "list bool")]


def _base_props(kind, prims, params):
    """the one-line properties of ScreenBase on one kind of receiver; a property that reads another one runs its translation"""
    n = lambda f: "src_%s_%s" % (kind, f)
    mk = lambda func, ret, extra=(): dict(_H14, cls="ScreenBase", func=func, name=n(func), pyparams=["self"], params=params, returns=ret,
                                          vars={}, prims=list(extra) + prims + _H_NUMPY)
    upi = "src_unique_plate_ids" if kind == "screen" else n("unique_plate_ids")     # on a Screen: the C14 block's translation
    out = [] if kind == "screen" else [mk("unique_plate_ids", "list Z")]
    return out + [
        mk("is_observed", "bool"),
        mk("n_plates", "Z", [("self.unique_plate_ids", "!%s self'" % upi, "list Z")]),
        mk("unique_sample_ids", "list Z"),
        mk("n_unique_samples", "Z", [("self.unique_sample_ids", "!%s self'" % n("unique_sample_ids"), "list Z")]),
        mk("unique_treatments", "list Z"),
        mk("n_unique_treatments", "Z", [("self.unique_treatments", "!%s self'" % n("unique_treatments"), "list Z")]),
        mk("treatment_arity", "Z"),
    ]


H14_SCREEN_PROPS = _base_props("screen", _ON_SCREEN, [("self", "pyscreen")])
H14_VIEW_PROPS = _base_props("view", _ON_VIEW, [("self", "view")])

# Plate: plate_id, plate_name, __lt__, merge
_PLATE_FIELDS = dict(
    _VIEW_FIELDS,
    plate_names=("pyscreen", "list name", "map r_plate (s_rows (snd {obj}))", "set_screen_plate_names {obj} {val}"),
    # the id column as the encoder returns it (option = NaN); the store is checked: the model keeps integers
    _plate_ids=("pyscreen", "list (option Z)", "map Some (s_pids (snd {obj}))", "!store_plate_ids {obj} {val}"))
H14_PLATE_ID = dict(
    _H14, cls="Plate", func="plate_id", name="src_plate_id", pyparams=["self"], params=[("self", "view")], returns="Z",
    vars={"unique_plate_ids": "list Z"},
    prims=[("self.unique_plate_ids", "!src_view_unique_plate_ids self'", "list Z"), _H_LEN,
           ("__l[0]", "!list_get {l} (0)", "Z", {"l": "list Z"})],
    raises=[("Cannot retrieve a plate id from an experiment subset that contains more than one plate", 29)])
H14_PLATE_NAME = dict(
    _H14, cls="Plate", func="plate_name", name="src_plate_name", pyparams=["self"], params=[("self", "view")], returns="name",
    vars={}, fields=_PLATE_FIELDS,
    prims=[("__l[0]", "!list_get {l} (0)", "name", {"l": "list name"}),          # IndexError on an empty array
           ("__a[__m]", "select {m} {a}", "list name", {"a": "list name", "m": "list bool"})])
H14_PLATE_LT = dict(
    _H14, cls="Plate", func="__lt__", name="src_plate_lt", pyparams=["self", "other"], params=[("self", "view"), ("other", "view")],
    returns="bool", vars={}, prims=[("__p.size", "!src_view_size {p}", "Z", {"p": "view"})])
H14_PLATE_MERGE = dict(
    _H14, cls="Plate", func="merge", name="src_plate_merge", pyparams=["self", "other"], params=[("self", "view"), ("other", "view")],
    returns="view", vars={}, fields=_PLATE_FIELDS, nested_fields=True,
    prims=[_IS_NOT, _OR, ("self.plate_name", "!src_plate_name self'", "name"),
           ("encode_1d_array_to_0_indexed_ids(__a)", "!src_encode_1d_array {a} None", "(list (option Z) * list name * list Z)",
            {"a": "list name"})],
    # a[m] = x on the parent's plate_names; an array on the right-hand side is not declared (not a Gallina term: refused by Coq)
    mask_store={"scalar": "mask_fill {a} {m} {v}", "array": "array_valued_mask_store_is_not_declared {a} {m} {v}"},
    raises=[("Cannot merge two plates from different screens", 28)])

# Screen.combine: a value of type pyscreen IS a Screen instance; the result is a new object (its contents are returned)
_T1C = ("list Z", "list bool", "list name")
H14_SCREEN_COMBINE = dict(
    _H14, cls="Screen", func="combine", name="src_screen_combine", pyparams=["self", "other"],
    params=[("self", "pyscreen"), ("other", "pyscreen")], returns="screen", vars={}, eqb={"name": "name_eqb"},
    prims=[("isinstance(__o, Screen)", "true", "bool", {"o": "pyscreen"})] + C14_SCREEN_SIZE["prims"][:-1]     # the C14 block's Screen attributes
    + [("np.concatenate([__a, __b])", "{a} ++ {b}", t, {"a": t, "b": t}) for t in _T1C]
    + [("np.concatenate([__a, __b])", "!concat2 {a} {b}", t, {"a": t, "b": t}) for t in _T2]
    + [C14_TO_SCREEN["prims"][-1]],           # Screen(<the seven keywords>): the constructor call of to_screen
    raises=[("other must be a Screen instance", 33), ("Cannot combine screens with different control treatment names", 31)])

# common.select_unique_zipped_numpy_arrays and filter_dataset_to_unique_treatments (on a ScreenSubset and on a Screen)
H14_SELECT_UNIQUE = dict(
    _H14, file="src/batchie/common.py", func="select_unique_zipped_numpy_arrays", name="src_select_unique", pyparams=["arrs"],
    params=[("arrs", "list list Z")], returns="list bool",
    vars={"x": "list Z", "combined": "(arr2 Z)", "_": "(arr2 Z)", "unique_indices": "list nat", "result": "list bool"},
    prims=[("len(set(__l))", "Z.of_nat (length (sort_uniq Z.compare {l}))", "Z", {"l": "list Z"}),      # number of distinct values
           _H_LEN,
           ("np.vstack(__l)", "!np_vstack {l}", "(arr2 Z)", {"l": "list list Z"}), ("__a.T", "arr2_T 0 {a}", "(arr2 Z)", {"a": "(arr2 Z)"}),
           # the distinct rows in lexicographic order and, for each, the index of its FIRST occurrence
           ("np.unique(__a, axis=0, return_index=True)", "(unique_rows2 {a}, first_indices {a})", "((arr2 Z) * list nat)", {"a": "(arr2 Z)"}),
           ("__l[0]", "!list_get {l} (0)", "list Z", {"l": "list list Z"}),
           ("np.zeros(__n, dtype=bool)", "repeat false (Z.to_nat {n})", "list bool", {"n": "Z"})],
    assign_effects=[("result[__i] = True", "result'", "!set_true_at {state} {i}")],          # a[idx] = True: IndexError outside
    raises=[("All arrays must be of the same length", 27)])
_UNIQUE_FILTER = dict(
    _H14, func="filter_dataset_to_unique_treatments", pyparams=["screen"], returns="view",
    vars={"arrs": "list list Z", "i": "Z", "mask": "list bool"}, coerce=_BOOL_COERCE)
_UF_PRIMS = [("__a[:, __i]", "!arr2_col 0 {a} {i}", "list Z", {"a": "(arr2 Z)", "i": "Z"}),
             ("select_unique_zipped_numpy_arrays(__a)", "!src_select_unique {a}", "list bool", {"a": "list list Z"})]
H14_FILTER_UNIQUE_VIEW = dict(
    _UNIQUE_FILTER, name="src_filter_unique_view", params=[("screen", "view")],
    prims=[("screen.sample_ids", "!src_view_sample_ids screen'", "list Z"),
           ("screen.treatment_arity", "!src_view_treatment_arity screen'", "Z"),
           ("screen.treatment_ids", "!(dor t__ <- src_view_treatment_ids screen'; Ok (s_arity (v_parent screen'), t__))", "(arr2 Z)"),
           ("screen.subset(__m)", "!src_view_subset screen' {m}", "view", {"m": "anyarray"})] + _UF_PRIMS)
H14_FILTER_UNIQUE_SCREEN = dict(
    _UNIQUE_FILTER, name="src_filter_unique_screen", params=[("screen", "pyscreen")],
    prims=[("screen.sample_ids", "s_sids (snd screen')", "list Z"),
           ("screen.treatment_arity", "!src_screen_treatment_arity screen'", "Z"),
           ("screen.treatment_ids", "screen_tids2 (snd screen')", "(arr2 Z)"),
           ("screen.subset(__m)", "!src_screen_subset screen' {m}", "view", {"m": "anyarray"})] + _UF_PRIMS)

H14_ALL = H14_SCREEN_PROPS + H14_VIEW_PROPS + [H14_PLATE_ID, H14_PLATE_NAME, H14_PLATE_LT, H14_PLATE_MERGE, H14_SCREEN_COMBINE,
                                               H14_SELECT_UNIQUE, H14_FILTER_UNIQUE_VIEW, H14_FILTER_UNIQUE_SCREEN]
ALL += H14_ALL
# ---- C08, second part: fast_mvn.sample_mvn_from_precision (vocabulary: end of Model/Mvn.v; proofs: Proofs/C08SourceObj.v) ----
# The function may raise and it draws: it denotes a program in `mprog` = the sampler's free monad gprog over `result`.
# `chol` (np.linalg.cholesky: any function, Err = LinAlgError) and `lin_solve` (np.linalg.solve, only reached for a masked
# array) are parameters.  Trusted, one library call each: np.random.default_rng() = a generator, rng.normal(size=n) = the draw
# node of n standard normals (variances 1), Q.shape[0] = number of rows, A.T of a square matrix, a plain float array is not a
# numpy MaskedArray, scipy's solve_triangular(U, z, lower=False) = back substitution with U, cho_solve((U, False), b) = forward
# substitution with U.T then back substitution with U, `+` on two vectors.  The conditional expression, the None tests, which
# matrix is factorised / transposed / solved with, what is added and the order come from the translation.
_GV, _GM, _GNV, _GZV = "list qnum", "list list qnum", "list nat", "list Z"
_MAT_FN = "list (list qnum) -> result (list (list qnum))"
C08_SAMPLE_MVN = dict(
    file="src/batchie/fast_mvn.py", func="sample_mvn_from_precision", out="SrcMvn.v", imports="Lib.Num Model.Gibbs Model.Mvn",
    name="src_sample_mvn_from_precision", overload=True, ifexp=True,
    monad=dict(type="mprog", bind="dmv", ok="mp_ret", fold="mp_fold", unwrap="mp_unwrap", bind_quote=""),
    pyparams=["Q", "mu", "mu_part", "chol_factor", "rng"], pydefaults=["None", "None", "False", "None"],
    params=[("chol", _MAT_FN), ("lin_solve", "list (list qnum) -> list qnum -> list qnum"), ("Q", _GM), ("mu", "opt list qnum"),
            ("mu_part", "opt list qnum"), ("chol_factor", "bool"), ("rng", "opt pygen")],
    returns=_GV, vars={"rng": "pygen", "Lt": _GM, "z": _GV, "result": _GV},
    prims=[("np.random.default_rng()", "DefaultRng", "pygen"),
           ("np.linalg.cholesky(__Q)", "!mp_lift (chol {Q})", _GM, {"Q": _GM}),
           ("__A.T", "np_transpose_sq {A}", _GM, {"A": _GM}),
           ("__Q.shape[0]", "Z.of_nat (length {Q})", "Z", {"Q": _GM}),
           ("__r.normal(size=__n)", "!mp_draw_std {n}", _GV, {"r": "pygen", "n": "Z"}),
           ("isinstance(__A, np.ma.core.MaskedArray)", "false", "bool", {"A": _GM}),
           ("np.linalg.solve(__A, __z)", "lin_solve {A} {z}", _GV, {"A": _GM, "z": _GV}),
           ("solve_triangular(__U, __z, lower=False)", "solve_upper {U} {z}", _GV, {"U": _GM, "z": _GV}),
           ("sp.linalg.cho_solve((__U, False), __b)", "cho_solve_upper {U} {b}", _GV, {"U": _GM, "b": _GV}),
           ("__a + __b", "np_vadd {a} {b}", _GV, {"a": _GV, "b": _GV})],
)
ALL += [C08_SAMPLE_MVN]
# ---- C08, second part: LegacySparseDrugComboImpl.__init__ / reset_model on the WHOLE object (Model/Gibbs.v: pyimpl = every
# attribute the constructor assigns; the first part's methods see it split into cfg_of / pi_obs / pi_st).  Trusted: the
# attribute table below (which record component an attribute is), np.zeros / np.ones / np.ones_like (shape -> array of zeros /
# ones; a negative dimension raises), defaultdict(list) = the empty association list, scalar * array, the float literals,
# and that `super().__init__(**kwargs)` of a class without a base class (object.__init__) sets no attribute.  WHICH array
# gets which shape and initial value, and which attributes reset_model touches, come from the translation.
_st_field = lambda f, t: (f, ("pyimpl", t, "%s (pi_st {obj})" % f, "pi_set_%s {obj} {val}" % f))
_ob_field = lambda a, f, t: (a, ("pyimpl", t, "o_%s (pi_obs {obj})" % f, "pi_set_o_%s {obj} {val}" % f))
_pi_field = lambda a, f, t: (a, ("pyimpl", t, "pi_%s {obj}" % f, "set_pi_%s {obj} {val}" % f))
_DL = "list (Z * list nat)"
_ST_ARRAYS = [("W", _GM), ("W0", _GV), ("V2", _GM), ("V1", _GM), ("V0", _GV), ("alpha", "qnum"), ("prec", "qnum"), ("tau", _GV),
              ("tau0", "qnum"), ("phi2", _GM), ("phi1", _GM), ("phi0", _GV), ("eta2", _GV), ("eta1", _GV), ("eta0", "qnum"),
              ("gam", _GV), ("Mu", _GV)]
_IMPL_FIELDS = dict(
    [_st_field(f, t) for f, t in _ST_ARRAYS]
    + [_ob_field("y", "y", _GV), _ob_field("cline", "cl", _GZV), _ob_field("dd1", "dd1", _GZV), _ob_field("dd2", "dd2", _GZV),
       _ob_field("cline_idxs", "cidx", _DL), _ob_field("dd1_idxs", "1idx", _DL), _ob_field("dd2_idxs", "2idx", _DL)]
    + [_pi_field("D", "D", "Z"), _pi_field("n_drugdoses", "ndd", "Z"), _pi_field("n_clines", "ncl", "Z"),
       _pi_field("min_Mu", "minMu", "qnum"), _pi_field("max_Mu", "maxMu", "qnum"), _pi_field("a0", "a0", "qnum"),
       _pi_field("b0", "b0", "qnum"), _pi_field("individual_eff", "individual_eff", "bool"), _pi_field("intercept", "intercept", "bool"),
       _pi_field("fake_intercept", "fake_intercept", "bool"), _pi_field("local_shrinkage", "local_shrinkage", "bool"),
       _pi_field("mult_gamma_proc", "mult_gamma_proc", "bool"), _pi_field("num_mcmc_steps", "steps", "Z")])
_IMPL = dict(file="src/batchie/models/sparse_combo.py", cls="LegacySparseDrugComboImpl", out="SrcGibbsObj.v",
             imports="Lib.Num Model.Gibbs Model.Mvn Generated.SrcGibbs", overload=True,
             float_consts={"0.0": ("q0", "qnum"), "1.0": ("q1", "qnum"), "100.0": ("q100", "qnum")})
_NP_ALLOC = [
    ("np.zeros(__s, dtype=np.float32)", "!np_zeros2 {s}", _GM, {"s": "(Z * Z)"}),
    ("np.zeros((__n,), np.float32)", "!np_zeros1 {n}", _GV, {"n": "Z"}),
    ("np.zeros(__n, np.float32)", "!np_zeros1 {n}", _GV, {"n": "Z"}),
    ("np.ones(__n, dtype=np.float32)", "!np_ones1 {n}", _GV, {"n": "Z"}),
    ("np.ones(__n, np.float32)", "!np_ones1 {n}", _GV, {"n": "Z"}),
    ("np.ones_like(__a)", "np_ones_like1 {a}", _GV, {"a": _GV}), ("np.ones_like(__a)", "np_ones_like2 {a}", _GM, {"a": _GM}),
    ("__x * __a", "np_smul {x} {a}", _GV, {"x": "qnum", "a": _GV}), ("__x * __a", "map (np_smul {x}) {a}", _GM, {"x": "qnum", "a": _GM}),
    ("__a * __x", "np_vmuls {a} {x}", _GV, {"a": _GV, "x": "qnum"}), ("__A * __x", "np_mmuls {A} {x}", _GM, {"A": _GM, "x": "qnum"}),
    ("defaultdict(list)", "[]", _DL),
]
C08_IMPL_INIT = dict(
    _IMPL, func="__init__", name="src_impl_init", fields=_IMPL_FIELDS, prims=_NP_ALLOC,
    pyparams=["self", "n_dims", "n_drugdoses", "n_clines", "intercept", "fake_intercept", "individual_eff", "mult_gamma_proc",
              "local_shrinkage", "a0", "b0", "min_Mu", "max_Mu"],
    pydefaults=["True", "True", "True", "True", "True", "1.1", "1.1", "-10.0", "10.0"],
    params=[("self", "pyimpl"), ("n_dims", "Z"), ("n_drugdoses", "Z"), ("n_clines", "Z"), ("intercept", "bool"), ("fake_intercept", "bool"),
            ("individual_eff", "bool"), ("mult_gamma_proc", "bool"), ("local_shrinkage", "bool"), ("a0", "qnum"), ("b0", "qnum"),
            ("min_Mu", "qnum"), ("max_Mu", "qnum")],
    returns="pyimpl", implicit_return="{self}", vars={"sh": "(Z * Z)"},
    ignore=["super().__init__(**kwargs)"],
)
C08_IMPL_RESET = dict(
    _IMPL, func="reset_model", name="src_impl_reset_model", fields=_IMPL_FIELDS, prims=_NP_ALLOC,
    pyparams=["self"], params=[("self", "pyimpl")], returns="pyimpl", implicit_return="{self}", vars={},
)
ALL += [C08_IMPL_INIT, C08_IMPL_RESET]
# ---- C08, second part: the wrapper class SparseDrugCombo (Model/Mvn.v: pysdc = the seven attributes its constructor assigns).
# Trusted: the attribute table, a.copy() / a.astype(FloatingPointType) have the value of a (floats are exact rationals here),
# SparseDrugComboMCMCSample(...) builds the model's `sample` record from its keywords, LegacySparseDrugComboImpl(...) runs the
# translated constructor on a new instance, a method call on self.wrapped_model runs the translated method and the wrapper goes
# on holding the mutated object, experiment_space.n_unique_* are two integers.  WHICH array is exported under which name, which
# argument reaches which parameter of the legacy constructor, and what each wrapper calls come from the translation.
_SDC_FIELDS = dict(_IMPL_FIELDS, **{
    "wrapped_model": ("pysdc", "pyimpl", "sdc_wrapped {obj}", "set_sdc_wrapped {obj} {val}"),
    "_rng": ("pysdc", "opt pygen", "sdc_rng {obj}", "set_sdc_rng {obj} {val}"),
    "n_embedding_dimensions": ("pysdc", "Z", "sdc_n_dims {obj}", "set_sdc_n_dims {obj} {val}"),
    "n_unique_treatments": ("pysdc", "Z", "sdc_n_treatments {obj}", "set_sdc_n_treatments {obj} {val}"),
    "n_unique_samples": ("pysdc", "Z", "sdc_n_samples {obj}", "set_sdc_n_samples {obj} {val}"),
    "predict_interactions": ("pysdc", "bool", "sdc_predict_interactions {obj}", "set_sdc_predict_interactions {obj} {val}"),
    "interaction_log_transform": ("pysdc", "bool", "sdc_interaction_log_transform {obj}", "set_sdc_interaction_log_transform {obj} {val}")})
_SDC = dict(_IMPL, cls="SparseDrugCombo", fields=_SDC_FIELDS, pyparams=["self"], params=[("self", "pysdc")], vars={})
C08_IMPL_N_OBS = dict(_IMPL, func="n_obs", name="src_impl_n_obs", fields=_IMPL_FIELDS, pyparams=["self"], params=[("self", "pyimpl")],
                      returns="Z", vars={}, prims=[("len(__l)", "Z.of_nat (length {l})", "Z")])
C08_SDC_INIT = dict(
    _SDC, func="__init__", name="src_sdc_init",
    pyparams=["self", "experiment_space", "n_embedding_dimensions", "fake_intercept", "individual_eff", "mult_gamma_proc",
              "local_shrinkage", "a0", "b0", "min_Mu", "max_Mu", "rng", "predict_interactions", "interaction_log_transform", "intercept"],
    pydefaults=["True", "True", "True", "True", "1.1", "1.1", "-10.0", "10.0", "None", "False", "True", "True"],
    params=[("self", "pysdc"), ("space_n_samples", "Z"), ("space_n_treatments", "Z"), ("n_embedding_dimensions", "Z"),
            ("fake_intercept", "bool"), ("individual_eff", "bool"), ("mult_gamma_proc", "bool"), ("local_shrinkage", "bool"),
            ("a0", "qnum"), ("b0", "qnum"), ("min_Mu", "qnum"), ("max_Mu", "qnum"), ("rng", "opt pygen"),
            ("predict_interactions", "bool"), ("interaction_log_transform", "bool"), ("intercept", "bool")],
    returns="pysdc", implicit_return="{self}",
    prims=[("experiment_space.n_unique_treatments", "space_n_treatments", "Z"),
           ("experiment_space.n_unique_samples", "space_n_samples", "Z")],
    kwcalls={"LegacySparseDrugComboImpl": (
        "!src_impl_init pi_blank {n_dims} {n_drugdoses} {n_clines} {intercept} {fake_intercept} {individual_eff} {mult_gamma_proc} "
        "{local_shrinkage} {a0} {b0} {min_Mu} {max_Mu}", "pyimpl",
        [("n_dims", "Z", None), ("n_drugdoses", "Z", None), ("n_clines", "Z", None), ("intercept", "bool", None),
         ("fake_intercept", "bool", None), ("individual_eff", "bool", None), ("mult_gamma_proc", "bool", None),
         ("local_shrinkage", "bool", None), ("a0", "qnum", None), ("b0", "qnum", None), ("min_Mu", "qnum", None), ("max_Mu", "qnum", None)])},
)
C08_SDC_STATE = dict(
    _SDC, func="get_model_state", name="src_sdc_get_model_state", returns="sample",
    prims=[("__a.copy()", "{a}", _GV, {"a": _GV}), ("__a.copy()", "{a}", _GM, {"a": _GM}),
           ("__a.astype(FloatingPointType)", "{a}", _GV, {"a": _GV}), ("__a.astype(FloatingPointType)", "{a}", _GM, {"a": _GM})],
    kwcalls={"SparseDrugComboMCMCSample": (
        "{{| sm_W := {W}; sm_W0 := {W0}; sm_V2 := {V2}; sm_V1 := {V1}; sm_V0 := {V0}; sm_alpha := {alpha}; sm_precision := {precision} |}}",
        "sample", [("precision", "qnum", None), ("alpha", "qnum", None), ("W0", _GV, None), ("V0", _GV, None), ("W", _GM, None),
                   ("V2", _GM, None), ("V1", _GM, None)])},
)
C08_SDC_N_OBS = dict(_SDC, func="n_obs", name="src_sdc_n_obs", returns="Z",
                     prims=[("__w.n_obs()", "!src_impl_n_obs {w}", "Z", {"w": "pyimpl"})])
C08_SDC_RESET = dict(_SDC, func="reset_model", name="src_sdc_reset_model", returns="pysdc", implicit_return="{self}",
                     effects=[("self.wrapped_model.reset_model()", "self'", "!sdc_on_wrapped {state} (src_impl_reset_model (sdc_wrapped {state}))")])
C08_SDC_SET_RNG = dict(_SDC, func="set_rng", name="src_sdc_set_rng", pyparams=["self", "rng"], params=[("self", "pysdc"), ("rng", "pygen")],
                       returns="pysdc", implicit_return="{self}")
C08_SDC_RNG = dict(_SDC, func="rng", name="src_sdc_rng", returns="opt pygen")
C08_SDC_STEP = dict(
    _SDC, func="step", name="src_sdc_step", returns="pysdc", implicit_return="{self}",
    monad=dict(type="gprog", bind="dop", ok="GRet", fold="prog_fold", unwrap="gprog_has_no_unwrap", bind_quote=""),
    params=[("run", "blk -> st -> gprog st"), ("self", "pysdc")],
    effects=[("self.wrapped_model.mcmc_step()", "self'",
              "!gbind (src_mcmc_step run (pi_steps (sdc_wrapped {state})) (pi_st (sdc_wrapped {state}))) (fun s__ => GRet (sdc_with_state {state} s__))")],
)
ALL += [C08_IMPL_N_OBS, C08_SDC_INIT, C08_SDC_STATE, C08_SDC_N_OBS, C08_SDC_RESET, C08_SDC_SET_RNG, C08_SDC_RNG, C08_SDC_STEP]

# ---- C10 (second part): the dict methods of the two posterior-sample classes and Theta.equals (vocabulary: Model/ThetaDicts.v;
# generated file Generated/SrcThetaDicts.v; proofs Proofs/C10SourceDicts.v).  A parameter dict is a `strdict pval` (string keys = code
# point lists, values of the four kinds PArr / PNum / PInts / PNums); the dataclass fields are typed by kind.  Trusted per entry: the
# dataclass declaration (checked against the class body: decorator, bases, field names and order, no __init__ / __post_init__ ...),
# the coercions field -> dict value (PArr / PNum) and back (as_arr / as_num: Err 95 = a value of another kind, outside the model),
# and one library call each below.  Which field goes under which key, the three exported columns, zip / dict on the way back, the
# ** unpacking, the loops / early returns / key tests of equals come from the translation.
_PV = "(pval A F)"
_PD = "strdict " + _PV
_AF = [("A", "Type"), ("F", "Type")]
_TBL = "pairdict F"                       # single_effect_lookup: {(sample id, treatment id): float}
_ROWS = "list ((Z * Z) * F)"              # list(d.items()) of such a dict
_D10 = dict(out="SrcThetaDicts.v", imports="Model.ThetaDicts", strings=True, strdict_elem=_PV, overload=True, key_error=94, type_error=93,
            coerce=[("A", _PV, "PArr {x}"), ("F", _PV, "PNum {x}")],
            checked_coerce=[(_PV, "A", "as_arr {x}"), (_PV, "F", "as_num {x}")])
_NO_STORE = "a_store_to_this_field_is_not_declared {obj} {val}"       # not a Gallina term: a store is refused by Coq
_SC = "(sc_sample A F)"
_SC_FIELD_T = [("W", "A"), ("W0", "A"), ("V2", "A"), ("V1", "A"), ("V0", "A"), ("alpha", "F"), ("precision", "F")]
_SC_FIELDS = {n: (_SC, t, "sc_%s {obj}" % n, _NO_STORE) for n, t in _SC_FIELD_T}
_SC_CLASS = dict(_D10, file="src/batchie/models/sparse_combo.py", cls="SparseDrugComboMCMCSample", fields=_SC_FIELDS,
                 dataclass=dict(owner=_SC, bases=["Theta"], fields=[n for n, _ in _SC_FIELD_T]))
C10D_SC_PRIVATE = dict(      # `return self.__dict__`: the instance dict of the dataclass = its fields in declaration order
    _SC_CLASS, func="private_parameters_dict", name="src_sc_private_parameters_dict", pyparams=["self"],
    params=_AF + [("self", _SC)], returns=_PD, vars={},
    # checked: the class defines neither of these itself, so it runs Theta's translated shared_parameters_dict / equals
    inherits=[("SparseDrugComboMCMCSample", "Theta", ["shared_parameters_dict", "equals"])])
C10D_SC_FROM = dict(         # `return cls(**private_params)`: the dataclass constructor takes exactly its fields
    _SC_CLASS, func="from_dicts", name="src_sc_from_dicts", pyparams=["cls", "private_params", "shared_params"],
    params=_AF + [("private_params", _PD), ("shared_params", _PD)], returns=_SC, vars={},
    kwcalls={"cls": ("Build_sc_sample A F {W} {W0} {V2} {V1} {V0} {alpha} {precision}", _SC, [(n, t, None) for n, t in _SC_FIELD_T])})
C10D_THETA_SHARED = dict(    # the base class's shared_parameters_dict (`return {}`), inherited by SparseDrugComboMCMCSample
    _D10, file="src/batchie/core.py", cls="Theta", func="shared_parameters_dict", name="src_theta_shared_parameters_dict",
    pyparams=["self"], params=_AF + [("T", "Type"), ("self", "T")], returns=_PD, vars={})
_IN = "(in_sample A F)"
_IN_FIELD_T = [("W", "A"), ("V2", "A"), ("precision", "F"), ("single_effect_lookup", _TBL)]
_IN_FIELDS = {n: (_IN, t, "in_%s {obj}" % ("lookup" if n == "single_effect_lookup" else n), _NO_STORE) for n, t in _IN_FIELD_T}
_IN_CLASS = dict(_D10, file="src/batchie/models/sparse_combo_interaction.py", cls="SparseDrugComboInteractionMCMCSample",
                 fields=_IN_FIELDS, dataclass=dict(owner=_IN, bases=["Theta"], fields=[n for n, _ in _IN_FIELD_T]))
C10D_IN_PRIVATE = dict(
    _IN_CLASS, func="private_parameters_dict", name="src_in_private_parameters_dict", pyparams=["self"],
    params=_AF + [("self", _IN)], returns=_PD, vars={"params": _PD},
    inherits=[("SparseDrugComboInteractionMCMCSample", "Theta", ["equals"])])       # checked: it runs Theta's translated equals
C10D_IN_SHARED = dict(
    _IN_CLASS, func="shared_parameters_dict", name="src_in_shared_parameters_dict", pyparams=["self"],
    params=_AF + [("self", _IN)], returns=_PD,
    vars={"dict_items": _ROWS, "single_effect_lookup_keys1": _PV, "single_effect_lookup_keys2": _PV, "single_effect_lookup_vals": _PV,
          "params": _PD},
    prims=[("list(__d.items())", "{d}", _ROWS, {"d": _TBL}),                     # the items in the dict's iteration order
           ("np.array(__l)", "PInts {l}", _PV, {"l": "list Z"}),                 # a 1-d array holding these values
           ("np.array(__l)", "PNums {l}", _PV, {"l": "list F"})])
C10D_IN_FROM = dict(
    _IN_CLASS, func="from_dicts", name="src_in_from_dicts", pyparams=["cls", "private_params", "shared_params"],
    params=_AF + [("private_params", _PD), ("shared_params", _PD)], returns=_IN,
    vars={"single_effect_lookup_keys": "list (Z * Z)", "single_effect_lookup": _TBL, "res": _IN},
    prims=[("zip(__a, __b)", "!zip_ids {a} {b}", "list (Z * Z)", {"a": _PV, "b": _PV}),           # two id columns: pairs up to the shorter
           ("zip(__a, __b)", "!zip_vals {a} {b}", _ROWS, {"a": "list (Z * Z)", "b": _PV}),         # (the zip object is consumed once)
           ("dict(__l)", "table_of_pairs {l}", _TBL, {"l": _ROWS})],                               # inserted from the left
    kwcalls={"cls": ("Build_in_sample A F {W} {V2} {precision} {single_effect_lookup}", _IN, [(n, t, None) for n, t in _IN_FIELD_T])})
# Theta.equals, for ANY class T of samples given by its class test and its two dict methods (parameters of the translation)
C10D_EQUALS = dict(
    _D10, file="src/batchie/core.py", cls="Theta", func="equals", name="src_theta_equals", pyparams=["self", "other"],
    params=_AF + [("aeqb", "A -> A -> bool"), ("feqb", "F -> F -> bool"), ("T", "Type"), ("same_class", "T -> T -> bool"),
                  ("priv", "T -> result (pdict A F)"), ("shar", "T -> result (pdict A F)"), ("self", "T"), ("other", "T")],
    returns="bool", vars={"d1": _PD, "d2": _PD, "k": "pystr", "v": _PV}, loop_return=True, tail_dup=True,
    ignore=["print(__a)"],
    prims=[("isinstance(__b, type(__a))", "same_class {a} {b}", "bool", {"a": "T", "b": "T"}),
           ("__t.private_parameters_dict()", "!priv {t}", _PD, {"t": "T"}),      # method dispatch: the class's own dict methods
           ("__t.shared_parameters_dict()", "!shar {t}", _PD, {"t": "T"}),
           ("isinstance(__v, Number)", "pval_is_number {v}", "bool", {"v": _PV}),
           ("isinstance(__v, ArrayType)", "pval_is_array {v}", "bool", {"v": _PV}),
           ("__a != __b", "!py_ne feqb {a} {b}", "bool", {"a": _PV, "b": _PV}),                     # two scalars
           ("np.array_equal(__a, __b)", "!np_array_equal aeqb feqb {a} {b}", "bool", {"a": _PV, "b": _PV})])
C10D_ALL = [C10D_SC_PRIVATE, C10D_SC_FROM, C10D_THETA_SHARED, C10D_IN_PRIVATE, C10D_IN_SHARED, C10D_IN_FROM, C10D_EQUALS]
ALL += C10D_ALL

# ---- C14 / C06 leftovers: Screen.concat, Screen.single_treatment_effects (vocabulary: end of Model/Views.v; Generated/SrcPlates.v),
# SizeScorer.score (end of Model/Scores.v; Generated/SrcScoring.v) ----
# Screen.concat: `new_tag` is the identity of the Screen objects that combine creates (never tested here; the link holds for every value)
L10B_SCREEN_CONCAT = dict(
    _H14, cls="Screen", func="concat", name="src_screen_concat", pyparams=["cls", "screens"], unused_params=["cls"],
    params=[("new_tag", "Z"), ("screens", "list pyscreen")], returns="pyscreen", vars={"result": "pyscreen", "screen": "pyscreen"},
    prims=[("len(__l)", "Z.of_nat (length {l})", "Z", {"l": "list pyscreen"}),
           ("__l[0]", "!list_get {l} (0)", "pyscreen", {"l": "list pyscreen"}),
           ("__l[1:]", "tl {l}", "list pyscreen", {"l": "list pyscreen"}),
           # a.combine(b) runs the translated Screen.combine; its result is a new object
           ("__a.combine(__b)", "!(dor c__ <- src_screen_combine {a} {b}; Ok (new_tag, c__))", "pyscreen", {"a": "pyscreen", "b": "pyscreen"})],
    raises=[("Cannot concat empty list", 24)])
# Screen.single_treatment_effects: create_single_treatment_effect_array is ANY function effect_array (its own translation is linked
# by C20 in the Synergy vocabulary); `key_error` = the tag its KeyError carries
L10B_SCREEN_STE = dict(
    _H14, cls="Screen", func="single_treatment_effects", name="src_screen_single_treatment_effects", pyparams=["self"],
    params=[("E", "Type"), ("key_error", "Z"), ("effect_array", "(list Z -> list (list Z) -> list Z -> result (list E))"),
            ("self", "pyscreen")],
    returns="opt list E", vars={}, prims=C14_SCREEN_SIZE["prims"][:-1],       # the C14 block's Screen attributes
    except_tags={"KeyError": "key_error"},
    kwcalls={"create_single_treatment_effect_array": (
        "!effect_array {sample_ids} {treatment_ids} {observation}", "list E",
        [("sample_ids", "list Z", None), ("treatment_ids", "list (list Z)", None), ("observation", "list Z", None)])},
    ignore=["logger.warning(__a)"])
# SizeScorer.score: the plates dict is `dict subset` (C06: a Plate where a ScreenSubset is expected is its rows), plate.size = their number
L10B_SIZE_SCORER = dict(
    file="src/batchie/scoring/size.py", cls="SizeScorer", func="score", out="SrcScoring.v", imports="Model.Scores",
    name="src_size_scorer_score", pyparams=["self", "plates", "distance_matrix", "samples", "rng", "progress_bar"],
    unused_params=["self", "distance_matrix", "samples", "rng", "progress_bar"],
    params=[("plates", "dict subset")], returns="dict", vars={"scores": "dict"},
    prims=[("__p.size", "Z.of_nat (length {p})", "Z", {"p": "subset"})])
L10B_EXTRA = [L10B_SCREEN_CONCAT, L10B_SCREEN_STE, L10B_SIZE_SCORER]
ALL += L10B_EXTRA
# ---- the argument-handling glue of the command-line wrappers: cli/argument_parsing.py (str_to_bool, cast_dict_to_type,
# KVAppendAction.__call__), the statements of each get_args() after parser.parse_args(), introspection.py
# (vocabulary: end of Model/Cli.v; proofs: Proofs/C18SourceArgs.v, C06SourceArgs.v, C04SourceArgs.v, C03SourceArgs.v).
# A str = the list of its code points (`str`); dicts keyed by str / annotation objects are `kdict K V` (py2gal); `P` = the record
# of the string primitives (Cli.pyprims: s.lower(), int(s), float(s), the call of another annotation object on a string).
_KD_SS = "kdict str str"                # the KEY=VALUE strings of one option
_KD_SA = "kdict str ann"                # required __init__ argument -> annotation
_KD_SV = "kdict str (pval F O)"         # the cast parameters
_ARGS_EQB = {"str": "str_eqb", "ann": "ann_eqb"}
_ARGS = dict(file="src/batchie/cli/argument_parsing.py", out="SrcCliArgs.v", imports="Model.Cli", eqb=_ARGS_EQB, str_consts="str")
_FO = [("F", "Type"), ("O", "Type"), ("P", "pyprims F O")]

ARGS_STR_TO_BOOL = dict(
    _ARGS, func="str_to_bool", name="src_str_to_bool", pyparams=["s"], params=_FO + [("s", "str")], returns="bool", vars={},
    eqb_membership=True,
    prims=[("__s.lower()", "p_lower P {s}", "str", {"s": "str"})],
    raises=[("Could not convert", 22)])

ARGS_CAST_DICT = dict(
    _ARGS, func="cast_dict_to_type", name="src_cast_dict_to_type", pyparams=["k_v_string", "k_v_types"],
    params=_FO + [("k_v_string", _KD_SS), ("k_v_types", _KD_SA)], returns=_KD_SV,
    vars={"converters": "kdict ann callable", "k": "str", "v": "str"},
    dict_literal_type="kdict ann callable", key_error=25,
    coerce=[("ann", "callable", "CType {x}")],          # a type object used as a converter is called
    prims=[("bool", "ABool", "ann"), ("int", "AInt", "ann"), ("float", "AFloat", "ann"), ("str", "AStr", "ann"),     # the builtin type objects
           ("str_to_bool", "CStrToBool", "callable"),                                                                 # the function above, as a value
           # the call of a converter on a string: str_to_bool is the TRANSLATED function above; a type object is called (Cli.call_callable)
           ("__f(__v)", "!call_callable P (src_str_to_bool F O P) {f} {v}", "(pval F O)", {"f": "callable", "v": "str"})])

ARGS_KV_APPEND = dict(
    _ARGS, cls="KVAppendAction", func="__call__", name="src_kv_append",
    pyparams=["self", "parser", "args", "values", "option_string"], pydefaults=["None"],
    # `args` = the namespace SEEN AT the action's destination attribute self.dest: None (argparse's default) or the dict so far
    params=[("args", "opt " + _KD_SS), ("values", "list str")], returns="opt " + _KD_SS, implicit_return="{args}",
    vars={"k": "str", "v": "str", "d": _KD_SS},
    assert_error=20, unpack_error=24, except_tag_lists={"ValueError": [23, 24]}, kdict_or_empty=True,
    prims=[("len(__l)", "Z.of_nat (length {l})", "Z", {"l": "list str"}),
           ("__l[0]", "!list_get {l} (0)", "str", {"l": "list str"}),
           ("__s.split(__sep, __n)", "!str_split {s} {sep} {n}", "list str", {"s": "str", "sep": "str", "n": "Z"}),
           ("getattr(__a, self.dest)", "{a}", "opt " + _KD_SS, {"a": "opt " + _KD_SS})],       # the attribute the namespace is seen at
    typed_effects=[("setattr(args, self.dest, __d)", "args'", "Some {d}", {"d": _KD_SS})],
    raises=[("could not parse argument", 21)])
ALL += [ARGS_STR_TO_BOOL, ARGS_CAST_DICT, ARGS_KV_APPEND]

# -- the get_args() of the wrappers: parser.parse_args() is the primitive that yields the raw namespace `raw` (a record, Cli.*_ns:
# the plain results main() reads + the class-valued options' names and KEY=VALUE dicts); the statements after it are translated.
# `I` = introspection.get_class / get_required_init_args_with_annotations (Cli.introspect); cast_dict_to_type is the TRANSLATED
# function above.  Then each main() once more, with get_args() = the translated get_args on `raw` and `cls(**params)` =
# `construct` applied to the two namespace attributes the call site names (checked unwrap of a None class).
_NS_IMPORTS = "Model.Cli Generated.SrcCli"
_GA = dict(out="SrcCliArgs.v", imports=_NS_IMPORTS, func="get_args", pyparams=[], eqb=_ARGS_EQB, str_consts="str")
_CFO = [("Cls", "Type"), ("F", "Type"), ("O", "Type")]
_GA_PARAMS = _CFO + [("I", "introspect Cls"), ("P", "pyprims F O")]
_GET_CLASS = {"introspection.get_class": (
    "!i_get_class I {package_name} {class_name} {base_class}", "opt Cls",
    [("package_name", "str", None), ("class_name", "str", None), ("base_class", "base_class", None)])}
_BASES = [("Scorer", "BScorer", "base_class"), ("PlatePolicy", "BPlatePolicy", "base_class"), ("BayesianModel", "BBayesianModel", "base_class"),
          ("RetrospectivePlateGenerator", "BPlateGenerator", "base_class"),
          ("InitialRetrospectivePlateGenerator", "BInitialPlateGenerator", "base_class"),
          ("RetrospectivePlateSmoother", "BPlateSmoother", "base_class")]


def _ga_prims(ns):
    return [("get_parser()", "Handle", "handle"),
            ("__p.parse_args()", "raw", ns, {"p": "handle"}),
            ("introspection.get_required_init_args_with_annotations(__c)", "!i_required I {c}", _KD_SA, {"c": "opt Cls"}),
            ("cast_dict_to_type(__d, __t)", "!src_cast_dict_to_type F O P {d} {t}", _KD_SV, {"d": _KD_SS, "t": _KD_SA})] + _BASES


def _ns_fields(ns, table):
    return {a: (ns, t, g, st) for a, (t, g, st) in table.items()}


def _plain_fields(ns, prefix, table):
    return {a: (ns, t, "%s_%s (%s_plain {obj})" % (prefix, a, prefix), _NOSET) for a, t in table.items()}


_CS_NS = "(cs_ns Cls F O)"
_CS_NS_FIELDS = _ns_fields(_CS_NS, {
    "scorer": ("str", "cs_scorer {obj}", _NOSET), "scorer_param": ("opt " + _KD_SS, "cs_scorer_param {obj}", _NOSET),
    "scorer_cls": ("opt Cls", "cs_scorer_cls {obj}", "cs_set_scorer_cls {obj} {val}"),
    "scorer_params": (_KD_SV, "cs_scorer_params {obj}", "cs_set_scorer_params {obj} {val}")})
ARGS_GET_ARGS_CS = dict(
    _GA, file="src/batchie/cli/calculate_scores.py", name="src_cs_get_args", params=_GA_PARAMS + [("raw", _CS_NS)], returns=_CS_NS,
    vars={"parser": "handle", "args": _CS_NS, "required_args": _KD_SA}, fields=_CS_NS_FIELDS, prims=_ga_prims(_CS_NS), kwcalls=_GET_CLASS)

_SN_NS = "(sn_ns Cls F O)"
_SN_NS_FIELDS = _ns_fields(_SN_NS, {
    "policy": ("opt str", "sn_policy (sn_plain {obj})", _NOSET), "policy_param": ("opt " + _KD_SS, "sn_policy_param {obj}", _NOSET),
    "policy_cls": ("opt Cls", "sn_policy_cls {obj}", "sn_set_policy_cls {obj} {val}"),
    "policy_params": (_KD_SV, "sn_policy_params {obj}", "sn_set_policy_params {obj} {val}")})
ARGS_GET_ARGS_SN = dict(
    _GA, file="src/batchie/cli/select_next_plate.py", name="src_sn_get_args", params=_GA_PARAMS + [("raw", _SN_NS)], returns=_SN_NS,
    vars={"parser": "handle", "args": _SN_NS, "required_args": _KD_SA}, fields=_SN_NS_FIELDS, prims=_ga_prims(_SN_NS), kwcalls=_GET_CLASS)

_TM_NS = "(tm_ns Cls F O)"
_TM_NS_FIELDS = _ns_fields(_TM_NS, {
    "model": ("str", "tm_model {obj}", _NOSET), "model_param": ("opt " + _KD_SS, "tm_model_param {obj}", _NOSET),
    "model_cls": ("opt Cls", "tm_model_cls {obj}", "tm_set_model_cls {obj} {val}"),
    "model_params": (_KD_SV, "tm_model_params {obj}", "tm_set_model_params {obj} {val}")})
ARGS_GET_ARGS_TM = dict(
    _GA, file="src/batchie/cli/train_model.py", name="src_tm_get_args", params=_GA_PARAMS + [("raw", _TM_NS)], returns=_TM_NS,
    vars={"parser": "handle", "args": _TM_NS, "cls": "opt Cls", "required_args": _KD_SA}, fields=_TM_NS_FIELDS, prims=_ga_prims(_TM_NS),
    kwcalls=_GET_CLASS)

_PR_NS = "(pr_ns Cls F O)"


def _pr_opt_fields(attr, slot):
    get, put = "pr_%s {obj}" % slot, "pr_set_%s {obj} " % slot
    return {attr: ("opt str", "pr_%s (pr_plain {obj})" % attr, _NOSET),
            attr + "_param": ("opt " + _KD_SS, "po_param (%s)" % get, _NOSET),
            attr + "_cls": ("opt Cls", "po_cls (%s)" % get, put + "(po_set_cls (%s) {val})" % get),
            attr + "_params": (_KD_SV, "po_params (%s)" % get, put + "(po_set_params (%s) {val})" % get)}


_PR_NS_FIELDS = _ns_fields(_PR_NS, dict(list(_pr_opt_fields("plate_generator", "pg").items())
                                        + list(_pr_opt_fields("initial_plate_generator", "ig").items())
                                        + list(_pr_opt_fields("plate_smoother", "ps").items())))
ARGS_GET_ARGS_PR = dict(
    _GA, file="src/batchie/cli/prepare_retrospective_simulation.py", name="src_pr_get_args", params=_GA_PARAMS + [("raw", _PR_NS)],
    returns=_PR_NS, vars={"parser": "handle", "args": _PR_NS, "required_args": _KD_SA}, fields=_PR_NS_FIELDS, prims=_ga_prims(_PR_NS),
    kwcalls=_GET_CLASS)
ALL += [ARGS_GET_ARGS_CS, ARGS_GET_ARGS_SN, ARGS_GET_ARGS_TM, ARGS_GET_ARGS_PR]


# -- the main() functions again, as whole commands: the same source text as the CLI_* configurations above, but `args` is the
# namespace get_args() returns (= the TRANSLATED get_args applied to what parse_args yields) and a constructor call `c(**p)` is
# `construct` on the class and the parameter dict the call site reads from the namespace.
def _cmd(base, ns, prefix, name, getargs, extra_params, ns_fields, drop, add_prims, **more):
    cfg = dict(base, out="SrcCliArgs.v", imports=_NS_IMPORTS, name=name)
    tail = [q for q in base["params"] if q[0] != "argv"]
    at = [q[0] for q in tail].index("L")
    cfg["params"] = _GA_PARAMS + tail[:at] + extra_params + tail[at:] + [("raw", ns)]
    cfg["vars"] = dict(base["vars"], args=ns)
    plain = {a: t for a, (_o, t, _g, _s) in base["fields"].items()}
    cfg["fields"] = dict(_plain_fields(ns, prefix, plain), **{a: f for a, f in ns_fields.items() if a.endswith("_cls") or a.endswith("_params")})
    prims = [q for q in base["prims"] if q[0] not in drop and q[0] != "get_args()" and not q[0].startswith("get_prng_from_seed_argument")]
    cfg["prims"] = [("get_args()", "!%s Cls F O I P raw" % getargs, ns)] + add_prims + prims
    cfg.update(more)
    return cfg


def _seed_prim(ns, prefix):
    return ("get_prng_from_seed_argument(__a)", "!src_get_prng_from_seed_argument mix (%s_seed (%s_plain {a}))" % (prefix, prefix), "gen", {"a": ns})


def _construct(fn, ty):
    return ("__c(**__p)", "!%s {c} {p}" % fn, ty, {"c": "Cls", "p": _KD_SV})


_CONSTRUCT_T = "Cls -> list (str * pval F O) -> result "
ARGS_CMD_CS = _cmd(CLI_CALCULATE_SCORES, _CS_NS, "cs", "src_cli_calculate_scores_cmd", "src_cs_get_args", [("construct", _CONSTRUCT_T + "Sc")],
                   _CS_NS_FIELDS, ["args.scorer_cls(**args.scorer_params)"], [_construct("construct", "Sc"), _seed_prim(_CS_NS, "cs")])
ARGS_CMD_SN = _cmd(CLI_SELECT_NEXT_PLATE, _SN_NS, "sn", "src_cli_select_next_plate_cmd", "src_sn_get_args", [("construct", _CONSTRUCT_T + "Po")],
                   _SN_NS_FIELDS, ["args.policy_cls(**args.policy_params)"], [_construct("construct", "Po"), _seed_prim(_SN_NS, "sn")])
# train_model: the parameter dict is the namespace attribute itself (no separate `model_params`); the store of the experiment
# space into it is the library's tm_set_space on that attribute
_TM_CMD = _cmd(CLI_TRAIN_MODEL, _TM_NS, "tm", "src_cli_train_model_cmd", "src_tm_get_args", [("construct", _CONSTRUCT_T + "Mo")],
               _TM_NS_FIELDS, ["args.model_cls(**__p)"], [_construct("construct", "Mo")], attr_vars={},
               assign_effects=[("args.model_params[EXPERIMENT_SPACE] = __e", "args'",
                                "tm_set_model_params {state} (tm_set_space L (tm_model_params {state}) {e})")])
_TM_CMD["params"] = [(n, "tm_lib Scr Sub Sp (list (str * pval F O)) Mo Th" if n == "L" else t) for n, t in _TM_CMD["params"] if n not in ("Pa", "model_params")]
ARGS_CMD_TM = _TM_CMD
_PR_CMD = _cmd(CLI_PREPARE, _PR_NS, "pr", "src_cli_prepare_cmd", "src_pr_get_args",
               [("construct_ig", _CONSTRUCT_T + "Ig"), ("construct_pg", _CONSTRUCT_T + "Pg"), ("construct_ps", _CONSTRUCT_T + "Ps")],
               _PR_NS_FIELDS,
               ["args.initial_plate_generator_cls(**args.initial_plate_generator_params)",
                "args.plate_generator_cls(**args.plate_generator_params)", "args.plate_smoother_cls(**args.plate_smoother_params)"],
               # the attribute's name says which kind of object the class makes (three constructors of different result types)
               [("__a.initial_plate_generator_cls(**__p)", "!instantiate construct_ig (po_cls (pr_ig {a})) {p}", "Ig", {"a": _PR_NS, "p": _KD_SV}),
                ("__a.plate_generator_cls(**__p)", "!instantiate construct_pg (po_cls (pr_pg {a})) {p}", "Pg", {"a": _PR_NS, "p": _KD_SV}),
                ("__a.plate_smoother_cls(**__p)", "!instantiate construct_ps (po_cls (pr_ps {a})) {p}", "Ps", {"a": _PR_NS, "p": _KD_SV}),
                _seed_prim(_PR_NS, "pr")])
ARGS_CMD_PR = _PR_CMD
ALL += [ARGS_CMD_CS, ARGS_CMD_SN, ARGS_CMD_TM, ARGS_CMD_PR]
# -- introspection.py itself (vocabulary: the pyworld record at the end of Model/Cli.v; proofs: Proofs/C18SourceIntrospect.v).
# Mod / Obj = module objects / any object a module attribute may hold; `W` = the importlib / pkgutil / inspect primitives.
_INTRO = dict(file="src/batchie/introspection.py", out="SrcCliArgs.v", imports=_NS_IMPORTS, eqb=_ARGS_EQB, str_consts="str")
_MOW = [("Mod", "Type"), ("Obj", "Type"), ("W", "pyworld Mod Obj")]
_TRUTHY = {"Obj": "w_truthy W"}
ARGS_GET_CLASS = dict(
    _INTRO, func="get_class", name="src_get_class", pyparams=["package_name", "class_name", "base_class"],
    params=_MOW + [("package_name", "str"), ("class_name", "str"), ("base_class", "base_class")], returns="opt Obj",
    vars={"package": "Mod", "module_name": "str", "module": "Mod", "cls": "opt Obj"},
    loop_return_rewrite=True, implicit_return="None", truthy=_TRUTHY,          # falling off the loop returns None
    prims=[("importlib.import_module(__n)", "!w_import W {n}", "Mod", {"n": "str"}),
           # the triples walk_packages yields: only the module name is read
           ("pkgutil.walk_packages(__p.__path__, __n + '.')", "map (fun n__ => (tt, n__, tt)) (w_walk W {p} {n})", "list (unit * str * unit)",
            {"p": "Mod", "n": "str"}),
           ("getattr(__m, __n, None)", "w_getattr W {m} {n}", "opt Obj", {"m": "Mod", "n": "str"}),
           ("issubclass(__c, __b)", "!w_issubclass W {c} {b}", "bool", {"c": "Obj", "b": "base_class"})],
    raises=[("is not a subclass of", 31)])
ARGS_CREATE_INSTANCE = dict(
    _INTRO, func="create_instance", name="src_create_instance", pyparams=["package_name", "class_name", "base_class", "kwargs"],
    params=_MOW + [("V", "Type"), ("Inst", "Type"), ("construct", "Obj -> V -> result Inst"), ("package_name", "str"), ("class_name", "str"),
                   ("base_class", "base_class"), ("kwargs", "V")],
    returns="Inst", vars={"cls": "opt Obj", "instance": "Inst"}, truthy=_TRUTHY,
    prims=[("get_class(__p, __n, __b)", "!src_get_class Mod Obj W {p} {n} {b}", "opt Obj", {"p": "str", "n": "str", "b": "base_class"}),
           ("__c(**__k)", "!construct {c} {k}", "Inst", {"c": "Obj", "k": "V"})],
    raises=[("was not found in the package", 30)])
ARGS_REQUIRED = dict(
    _INTRO, func="get_required_init_args_with_annotations", name="src_get_required_init_args", pyparams=["cls"],
    params=_MOW + [("cls", "opt Obj")], returns=_KD_SA,
    vars={"init_signature": "kdict str sigparam", "parameters": "kdict str sigparam", "required_args_with_annotations": _KD_SA,
          "name": "str", "param": "sigparam", "annotation": "ann"},
    if_expr=True, coerce=[("none", "ann", "ANone")],       # the literal None as an annotation value
    prims=[("inspect.isclass(__c)", "opt_isclass W {c}", "bool", {"c": "opt Obj"}),
           ("inspect.signature(__c.__init__)", "!w_signature W {c}", "kdict str sigparam", {"c": "Obj"}),
           ("__s.parameters", "{s}", "kdict str sigparam", {"s": "kdict str sigparam"}),        # the signature is its ordered parameter mapping
           ("__p.default == inspect.Parameter.empty", "sp_no_default {p}", "bool", {"p": "sigparam"}),
           ("__p.annotation", "sp_annotation {p}", "ann", {"p": "sigparam"}),
           ("inspect.Parameter.empty", "AEmpty", "ann")],
    raises=[("The given object is not a class", 29)])
ALL += [ARGS_GET_CLASS, ARGS_CREATE_INSTANCE, ARGS_REQUIRED]
# ---- C19, continued (lorch): the rest of nextflow/scripts/batchie.py (vocabulary: end of Model/Orchestrate.v; one Proofs file per
# function or group: Proofs/C19Source_ValidateInitial.v, C19Source_GetArgs.v, C19Source_Paths.v).
# validate_initial_output_dir_and_get_result_files_as_dict: handed the job directory of the initial step (a globbed plate directory,
# as for C19_GET_SCREEN / C19_VALIDATE); the three globs, the `or` of the two emptiness tests, the three l[0] reads IN THEIR ORDER
# (test_screen_glob[0] first: IndexError when only the test screen is missing), the `with`, which variable goes under which key of
# the returned dict come from the translation.
C19_VALIDATE_INITIAL = dict(
    file="nextflow/scripts/batchie.py", out="SrcOrchInit.v", imports="Model.Orchestrate", monad=_SRES, overload=True,
    func="validate_initial_output_dir_and_get_result_files_as_dict", name="src_validate_initial", pyparams=["output_dir"],
    params=[("output_dir", "plate_path")], returns="opt initial_files",
    vars={"test_screen_glob": "list spath", "training_screen_glob": "list spath", "screen_metadata": "list Z",
          "test_screen": "spath", "training_screen": "spath", "f": "Z", "screen_metadata_obj": "Z"},
    retype={"screen_metadata": ["Z"]},
    contexts=[("open(screen_metadata, 'r')", "screen_metadata'", "Z")],
    prims=[(_GLOB % "test.screen.h5", "glob_in_plate output_dir' KTest", "list spath"),
           (_GLOB % "training.screen.h5", "glob_in_plate output_dir' KTraining", "list spath"),
           (_GLOB % "screen_metadata.json", "glob_meta output_dir'", "list Z"),
           _LEN0, ("__l[0]", "!shead {l}", "spath", {"l": "list spath"}), ("__l[0]", "!shead {l}", "Z", {"l": "list Z"}),
           ("json.load(__f)", "{f}", "Z", {"f": "Z"}),
           # the returned dict: a record with one field per key
           ("{'test_screen': __a, 'training_screen': __b, 'screen_metadata': __c}", "mkif {a} {b} {c}", "initial_files",
            {"a": "spath", "b": "spath", "c": "Z"})],
)
ALL += [C19_VALIDATE_INITIAL]
# get_args: the parser object held in `parser` is its option table (Orchestrate.optspec list); every add_argument call appends the
# entry its arguments denote - WHICH option string, conversion, required flag, default and choices come from the call's own
# argument list (typed holes: anything else, e.g. a new keyword such as nargs= / dest= / action=, a str default, is refused);
# the help text is evaluated and not used.  `cmdline` (no variable of the source) is sys.argv[1:].
C19_GET_ARGS = dict(
    file="nextflow/scripts/batchie.py", out="SrcOrchArgs.v", imports="Model.Orchestrate", monad=_SRES, str_consts="str",
    func="get_args", name="src_get_args", pyparams=[], params=[("cmdline", "list str")], returns="(namespace * list str)",
    vars={"parser": "list optspec", "args": "namespace", "remaining_args": "list str"},
    prims=[("argparse.ArgumentParser(description=__d)", "[]", "list optspec", {"d": "str"}),      # a new parser: no option yet
           ("str", "TStr", "argtype"), ("int", "TInt", "argtype"),                                # the builtin type objects as type=
           # argparse itself: Orchestrate.parse_known_args on the table built so far and the command line
           ("__p.parse_known_args()", "!parse_known_args {p} cmdline", "(namespace * list str)", {"p": "list optspec"})],
    typed_effects=[
        ("parser.add_argument(__n, type=__t, required=__r, help=__h)", "parser'", "{state} ++ [mko {n} {t} {r} None]",
         {"n": "str", "t": "argtype", "r": "bool", "h": "str"}),
        ("parser.add_argument(__n, type=__t, default=__d, help=__h)", "parser'", "{state} ++ [mko {n} {t} false (Some {d})]",
         {"n": "str", "t": "argtype", "d": "Z", "h": "str"}),
        ("parser.add_argument(__n, choices=__c, required=__r, help=__h)", "parser'", "{state} ++ [mko {n} (TChoice {c}) {r} None]",
         {"n": "str", "c": "list str", "r": "bool", "h": "str"}),
    ],
)
ALL += [C19_GET_ARGS]
# the five one-line path helpers: os.path calls are primitives over Orchestrate.fspath (an absolute path = its components); the
# module global __file__ is the Gallina parameter of that name (type pyfile: the path realpath resolves it to); the string
# literals ("..", "nextflow.config", "main.nf"), the nesting of the calls and WHICH helper each one builds on come from the
# translation; a helper calling another calls its translation.
_PATHS = dict(
    file="nextflow/scripts/batchie.py", out="SrcOrchPaths.v", imports="Model.Orchestrate", monad=_SRES, str_consts="str", overload=True,
    pyparams=[], params=[("__file__", "pyfile")], returns="fspath", vars={},
    prims=[("os.path.realpath(__f)", "realpath_of {f}", "fspath", {"f": "pyfile"}),
           ("os.path.dirname(__p)", "dirname {p}", "fspath", {"p": "fspath"}),
           ("os.path.abspath(__p)", "abspath {p}", "fspath", {"p": "fspath"}),
           ("os.path.join(__a, __b)", "path_join {a} [{b}]", "fspath", {"a": "fspath", "b": "str"}),
           ("os.path.join(__a, __b, __c)", "path_join {a} [{b}; {c}]", "fspath", {"a": "fspath", "b": "str", "c": "str"}),
           ("get_script_location()", "!src_get_script_location __file__", "fspath"),
           ("get_nextflow_dir()", "!src_get_nextflow_dir __file__", "fspath"),
           ("get_repository_root()", "!src_get_repository_root __file__", "fspath")],
)
C19_PATH_SCRIPT_LOCATION = dict(_PATHS, func="get_script_location", name="src_get_script_location")
C19_PATH_NEXTFLOW_DIR = dict(_PATHS, func="get_nextflow_dir", name="src_get_nextflow_dir")
C19_PATH_BASE_CONFIG = dict(_PATHS, func="get_base_config", name="src_get_base_config")
C19_PATH_REPOSITORY_ROOT = dict(_PATHS, func="get_repository_root", name="src_get_repository_root")
C19_PATH_MAIN_NF = dict(_PATHS, func="get_main_nf_file", name="src_get_main_nf_file")
ALL += [C19_PATH_SCRIPT_LOCATION, C19_PATH_NEXTFLOW_DIR, C19_PATH_BASE_CONFIG, C19_PATH_REPOSITORY_ROOT, C19_PATH_MAIN_NF]
# the four run_* command builders once more, CLOSED over the path helpers: get_main_nf_file() / get_repository_root() are calls of
# the TRANSLATED helpers above on __file__ (instead of the opaque word WMainNf of C19_RUN_*); a path used as a command-line word is
# Orchestrate.word_of_file root - `root` (no variable of the source) is the checkout whose main.nf is the pipeline the model
# describes; the working directory of check_call is evaluated and not interpreted (nextflow's own cache and logs are abstracted).
_CMD_CLOSED = dict(
    _CMD, out="SrcOrchCmdClosed.v", imports="Model.Orchestrate Generated.SrcOrchPaths",
    coerce=_CMD["coerce"] + [("fspath", _OW, "Some (word_of_file root {x})")],
    prims=[q for q in _CMD["prims"] if q[0] != "get_main_nf_file()"] + [
        ("get_main_nf_file()", "!src_get_main_nf_file __file__", "fspath"),
        ("get_repository_root()", "!src_get_repository_root __file__", "fspath")],
    typed_effects=[_CMD["typed_effects"][0],
                   ("subprocess.check_call(__c, cwd=__d)", "acts", "!check_call {state} {c}", {"c": "list opt word", "d": "fspath"})],
)
_CLOSED_PARAMS = [("root", "fspath"), ("__file__", "pyfile")]
C19_RUN_INITIAL_CLOSED = dict(_CMD_CLOSED, func="run_initial_plate", name="src_run_initial_plate_closed", pyparams=C19_RUN_INITIAL["pyparams"],
                              params=_CLOSED_PARAMS + C19_RUN_INITIAL["params"], vars=C19_RUN_INITIAL["vars"])
C19_RUN_FIRST_CLOSED = dict(_CMD_CLOSED, func="run_first_batch_plate", name="src_run_first_batch_plate_closed", pyparams=C19_RUN_FIRST["pyparams"],
                            params=_CLOSED_PARAMS + C19_RUN_FIRST["params"], vars=C19_RUN_FIRST["vars"])
C19_RUN_FIRST_PROSP_CLOSED = dict(_CMD_CLOSED, func="run_first_prospective_batch_plate", name="src_run_first_prospective_batch_plate_closed",
                                  pyparams=C19_RUN_FIRST_PROSP["pyparams"], params=_CLOSED_PARAMS + C19_RUN_FIRST_PROSP["params"],
                                  vars=C19_RUN_FIRST_PROSP["vars"])
C19_RUN_SUBSEQUENT_CLOSED = dict(_CMD_CLOSED, func="run_subsequent_batch_plate", name="src_run_subsequent_batch_plate_closed",
                                 pyparams=C19_RUN_SUBSEQUENT["pyparams"], pydefaults=C19_RUN_SUBSEQUENT["pydefaults"],
                                 params=_CLOSED_PARAMS + C19_RUN_SUBSEQUENT["params"], vars=C19_RUN_SUBSEQUENT["vars"])
ALL += [C19_RUN_INITIAL_CLOSED, C19_RUN_FIRST_CLOSED, C19_RUN_FIRST_PROSP_CLOSED, C19_RUN_SUBSEQUENT_CLOSED]
# ---- the small functions (wave 6): ExperimentSpace.__init__ and its query methods (data.py; vocabulary: last part of
# Model/Persist.v; generated file Generated/SrcSpaceMethods.v; proofs Proofs/C01Source_Space*.v).  An ExperimentSpace object is
# `pyspace` = its three instance attributes as stored (two tuples of arrays, a string): typed fields.  A dose is its order key
# (the literal 0.0 is key 0).  Trusted per entry, ONE numpy call / tuple projection each:
#   m[0], m[1], m[2]            the components of a mapping tuple
#   np.array([x])               the array of that list (the same values)
#   a == v                      elementwise on a str / int array
#   a[mask]                     boolean-mask selection (IndexError, tag 35, on another length)
#   a.item()                    the only element of an array of size 1, else ValueError (tag 36)
#   np.unique(a)                the sorted distinct values;  np.sort(a);  a.size
#   np.setdiff1d(a, b)          the sorted distinct values of a not in b
_LS_SPACE_FIELDS = {
    "treatment_mapping": ("pyspace", _TMAP_T, "pysp_tmap {obj}", "set_pysp_tmap {obj} {val}"),
    "sample_mapping": ("pyspace", _SMAP_T, "pysp_smap {obj}", "set_pysp_smap {obj} {val}"),
    "control_treatment_name": ("pyspace", "name", "pysp_ctrl {obj}", "set_pysp_ctrl {obj} {val}")}
_LS_SPACE = dict(file="src/batchie/data.py", cls="ExperimentSpace", out="SrcSpaceMethods.v",
                 imports="Generated.Consts Model.Encode Model.Screen Model.Persist", overload=True, fields=_LS_SPACE_FIELDS,
                 float_consts={"0.0": ("0", "Z")})
_LS_SPACE_NUMPY = _TUPLE_ITEMS + [
    ("np.array(__a)", "{a}", "list name", {"a": "list name"}), ("np.array(__a)", "{a}", "list Z", {"a": "list Z"}),
    ("__a == __v", "arr_eq_name {a} {v}", "list bool", {"a": "list name", "v": "name"}),
    ("__a == __v", "arr_eq_id {a} {v}", "list bool", {"a": "list Z", "v": "Z"}),
    ("__a[__m]", "!arr_mask {a} {m}", "list name", {"a": "list name", "m": "list bool"}),
    ("__a[__m]", "!arr_mask {a} {m}", "list Z", {"a": "list Z", "m": "list bool"}),
    ("__a.item()", "!arr_item {a}", "name", {"a": "list name"}), ("__a.item()", "!arr_item {a}", "Z", {"a": "list Z"}),
    ("np.unique(__a)", "sort_uniq name_cmp {a}", "list name", {"a": "list name"}),
    ("np.unique(__a)", "sort_uniq Z.compare {a}", "list Z", {"a": "list Z"}),
    ("np.sort(__a)", "np_sort_Z {a}", "list Z", {"a": "list Z"}),
    ("np.setdiff1d(__a, __b)", "setdiff1d_names {a} {b}", "list name", {"a": "list name", "b": "list name"}),
    ("np.setdiff1d(__a, __b)", "np_setdiff1d {a} {b}", "list Z", {"a": "list Z", "b": "list Z"}),
    ("__a.size", "Z.of_nat (length {a})", "Z", {"a": "list name"}), ("__a.size", "Z.of_nat (length {a})", "Z", {"a": "list Z"}),
]
LS_SPACE_INIT = dict(
    _LS_SPACE, func="__init__", name="src_space_init",
    pyparams=["self", "treatment_mapping", "sample_mapping", "control_treatment_name"], pydefaults=["''"],
    params=[("self", "pyspace"), ("treatment_mapping", _TMAP_T), ("sample_mapping", _SMAP_T), ("control_treatment_name", "name")],
    returns="pyspace", vars={}, implicit_return="{self}")


def _ls_space_method(func, name, ret, extra_params=(), local_vars=None):
    return dict(_LS_SPACE, func=func, name=name, pyparams=["self"] + [p for p, _ in extra_params],
                params=[("self", "pyspace")] + list(extra_params), returns=ret, vars=dict(local_vars or {}), prims=_LS_SPACE_NUMPY)


_SEL = {"selection": "list bool"}
LS_SPACE_N_TYPES = _ls_space_method("n_unique_treatment_types", "src_space_n_unique_treatment_types", "Z")
LS_SPACE_N_DOSES = _ls_space_method("n_unique_doses", "src_space_n_unique_doses", "Z")
LS_SPACE_DOSES_FOR = _ls_space_method("doses_for_treatment", "src_space_doses_for_treatment", "list Z", [("treatment_name", "name")], _SEL)
LS_SPACE_IDS_FROM_NAME = _ls_space_method("treatment_ids_from_treatment_name", "src_space_treatment_ids_from_treatment_name", "list Z",
                                          [("treatment_name", "name")], _SEL)
LS_SPACE_SAMPLE_ID = _ls_space_method("sample_id_from_sample_name", "src_space_sample_id_from_sample_name", "Z", [("sample_name", "name")], _SEL)
LS_SPACE_SAMPLE_NAME = _ls_space_method("sample_name_from_sample_id", "src_space_sample_name_from_sample_id", "name", [("sample_id", "Z")], _SEL)
LS_SPACE_ALL = [LS_SPACE_INIT, LS_SPACE_N_TYPES, LS_SPACE_N_DOSES, LS_SPACE_DOSES_FOR, LS_SPACE_IDS_FROM_NAME, LS_SPACE_SAMPLE_ID,
                LS_SPACE_SAMPLE_NAME]
ALL += LS_SPACE_ALL
# ---- the small functions (wave 6): the attribute getters of Screen (`return self._<attr>`) and ScreenBase.sample_space_size /
# treatment_space_size on both kinds of receiver (data.py; vocabulary: Model/Views.v; generated file Generated/SrcScreenAttrs.v; proofs
# Proofs/C14Source_ScreenAttrs.v, C14Source_SpaceSize.v).  A Screen object is `pyscreen` = (identity, contents) as in the C14 block;
# its PRIVATE attributes are read-only typed fields: the array / mapping the model screen holds in that place.  The getters'
# theorems say that each property returns exactly the value the C14 block's _SCREEN_ATTRS primitives gave `s.<attr>`.
_LS_NO_STORE = "a_getter_of_Screen_never_stores {obj} {val}"          # not a Gallina term: a store to a private attribute is refused by Coq
_LS_SCREEN_PRIVATE = {
    "_plate_ids": ("pyscreen", "list Z", "s_pids (snd {obj})", _LS_NO_STORE),
    "_sample_ids": ("pyscreen", "list Z", "s_sids (snd {obj})", _LS_NO_STORE),
    "_treatment_ids": ("pyscreen", "list (list Z)", "s_tids (snd {obj})", _LS_NO_STORE),
    "_sample_names": ("pyscreen", "list name", "map r_sample (s_rows (snd {obj}))", _LS_NO_STORE),
    "_treatment_names": ("pyscreen", "(arr2 name)", "screen_treatment_names (snd {obj})", _LS_NO_STORE),
    "_treatment_doses": ("pyscreen", "(arr2 Z)", "screen_treatment_doses (snd {obj})", _LS_NO_STORE),
    "_observations": ("pyscreen", "list Z", "map r_obs (s_rows (snd {obj}))", _LS_NO_STORE),
    "_observation_mask": ("pyscreen", "list bool", "screen_mask (snd {obj})", _LS_NO_STORE),
    "_treatment_mapping": ("pyscreen", "tmapping", "s_tmap (snd {obj})", _LS_NO_STORE),
    "_sample_mapping": ("pyscreen", "nmapping", "s_smap (snd {obj})", _LS_NO_STORE),
    "_plate_mapping": ("pyscreen", "nmapping", "s_pmap (snd {obj})", _LS_NO_STORE)}
_LS_SCREEN = dict(file="src/batchie/data.py", out="SrcScreenAttrs.v", imports="Model.Encode Model.Screen Model.Views Generated.SrcViews",
                  overload=True, pyparams=["self"], vars={})
LS_SCREEN_GETTERS = [
    dict(_LS_SCREEN, cls="Screen", func=f, name="src_screen_" + f, params=[("self", "pyscreen")], returns=t, fields=_LS_SCREEN_PRIVATE)
    for f, t in [("plate_ids", "list Z"), ("sample_ids", "list Z"), ("treatment_ids", "list (list Z)"), ("sample_names", "list name"),
                 ("treatment_names", "(arr2 name)"), ("treatment_doses", "(arr2 Z)"), ("observations", "list Z"),
                 ("observation_mask", "list bool"), ("treatment_mapping", "tmapping"), ("sample_mapping", "nmapping"),
                 ("plate_mapping", "nmapping")]]
# len(self.<x>_mapping[0]): the mapping property runs its translation; m[0] = the names column of the mapping's rows
_LS_MAP_COLS = [("__m[0]", "map fst {m}", "list name", {"m": "nmapping"}),
                ("__m[0]", "map (fun e__ => fst (fst e__)) {m}", "list name", {"m": "tmapping"}),
                ("len(__l)", "Z.of_nat (length {l})", "Z", {"l": "list name"})]
LS_SPACE_SIZES = [
    dict(_LS_SCREEN, cls="ScreenBase", func=f, name="src_%s_%s" % (kind, f), params=[("self", ty)], returns="Z",
         prims=[("self.%s" % attr, "!src_%s_%s self'" % (kind, attr), mt)] + _LS_MAP_COLS)
    for kind, ty in [("screen", "pyscreen"), ("view", "view")]
    for f, attr, mt in [("sample_space_size", "sample_mapping", "nmapping"), ("treatment_space_size", "treatment_mapping", "tmapping")]]
ALL += LS_SCREEN_GETTERS + LS_SPACE_SIZES
# ---- the small functions (wave 6): the __init__ methods that only store their arguments (generated file Generated/SrcInits.v; proofs
# one file per class, Proofs/C??Source_Init_<Class>.v).  `self.<attr>` is a variable (attr_vars); the value of the translation is the
# tuple of the attributes when the method ends, in the order of the model parameters the links of the class's methods take - so
# "the k the policy filters with is the k it was constructed with" is a theorem about the source.  Nothing is trusted but the
# translator (no primitive), except the one ignored statement of GaussianDBALScorer (see there).
def _ls_init(file, cls, name, args, attrs, **more):
    """args: [(python parameter, type)]; attrs: the attribute names, in the order of the returned tuple"""
    types = dict(args)
    ret = [a if isinstance(a, tuple) else (a, types[a]) for a in attrs]      # (attribute, type)
    return dict(dict(file=file, cls=cls, func="__init__", out="SrcInits.v", imports="Model.Encode", name=name,
                     pyparams=["self"] + [a for a, _ in args], params=list(args),
                     attr_vars={"self." + a: "self_" + a for a, _ in ret}, vars={"self_" + a: t for a, t in ret},
                     returns=ret[0][1] if len(ret) == 1 else "(" + " * ".join(t for _, t in ret) + ")",
                     implicit_return="{self_%s}" % ret[0][0] if len(ret) == 1 else "(" + ", ".join("{self_%s}" % a for a, _ in ret) + ")"),
                **more)


_RETRO_PY = "src/batchie/retrospective.py"
LS_INIT_SPARSE_COVER = _ls_init(_RETRO_PY, "SparseCoverPlateGenerator", "src_sparse_cover_init",
                                [("reveal_single_treatment_experiments", "bool")], ["reveal_single_treatment_experiments"])
LS_INIT_PAIRWISE = _ls_init(_RETRO_PY, "PairwisePlateGenerator", "src_pairwise_init", [("subset_size", "Z"), ("anchor_size", "Z")],
                            ["subset_size", "anchor_size"])
LS_INIT_PLATE_PERMUTATION = _ls_init(_RETRO_PY, "PlatePermutationPlateGenerator", "src_plate_permutation_init",
                                     [("force_include_plate_names", "opt list name")], ["force_include_plate_names"], pydefaults=["None"])
LS_INIT_SAMPLE_SEG = _ls_init(_RETRO_PY, "SampleSegregatingPermutationPlateGenerator", "src_sample_seg_init", [("max_plate_size", "Z")],
                              ["max_plate_size"])
LS_INIT_MERGE_MIN = _ls_init(_RETRO_PY, "MergeMinPlateSmoother", "src_merge_min_init", [("min_size", "Z")], ["min_size"])
LS_INIT_MERGE_TB = _ls_init(_RETRO_PY, "MergeTopBottomPlateSmoother", "src_merge_tb_init", [("n_iterations", "Z")], ["n_iterations"])
LS_INIT_FIXED_SIZE = _ls_init(_RETRO_PY, "FixedSizeSmoother", "src_fixed_size_init", [("plate_size", "Z")], ["plate_size"])
LS_INIT_NPLATE = _ls_init(_RETRO_PY, "NPlatePerCellLineSmoother", "src_nplate_init", [("min_n_cell_line_plates", "Z")],
                          ["min_n_cell_line_plates"])
LS_INIT_ENSEMBLE = _ls_init(_RETRO_PY, "BatchieEnsemblePlateSmoother", "src_ensemble_init",
                            [("min_size", "Z"), ("n_iterations", "Z"), ("min_n_cell_line_plates", "Z")],
                            ["min_size", "n_iterations", "min_n_cell_line_plates"])
LS_INIT_POLICY = _ls_init("src/batchie/policies/k_per_sample.py", "KPerSamplePlatePolicy", "src_k_per_sample_init", [("k", "Z")], ["k"])
LS_INIT_MSE = _ls_init("src/batchie/distance/mse.py", "MSEDistance", "src_mse_distance_init", [("sigmoid", "bool")], ["sigmoid"],
                       pydefaults=["True"])
# GaussianDBALScorer.__init__(self, max_chunk=50, max_triples=5000, **kwargs): `super().__init__(**kwargs)` is IGNORED - trusted: the
# base class Scorer defines no __init__ (object.__init__ stores nothing; its TypeError for a non-empty kwargs is not modelled)
LS_INIT_DBAL = _ls_init("src/batchie/scoring/gaussian_dbal.py", "GaussianDBALScorer", "src_dbal_scorer_init",
                        [("max_chunk", "Z"), ("max_triples", "Z")], ["max_chunk", "max_triples"], pydefaults=["50", "5000"],
                        ignore=["super().__init__(**kwargs)"])
# BayesianModel.__init__ / Metric.__init__ (core.py): the stored object is opaque
LS_INIT_BAYESIAN = _ls_init("src/batchie/core.py", "BayesianModel", "src_bayesian_model_init", [("experiment_space", "Sp")],
                            ["experiment_space"])
LS_INIT_BAYESIAN["params"] = [("Sp", "Type")] + LS_INIT_BAYESIAN["params"]
LS_INIT_METRIC = _ls_init("src/batchie/core.py", "Metric", "src_metric_init", [("model", "Mo")], ["model"])
LS_INIT_METRIC["params"] = [("Mo", "Type")] + LS_INIT_METRIC["params"]
LS_INITS = [LS_INIT_SPARSE_COVER, LS_INIT_PAIRWISE, LS_INIT_PLATE_PERMUTATION, LS_INIT_SAMPLE_SEG, LS_INIT_MERGE_MIN, LS_INIT_MERGE_TB,
            LS_INIT_FIXED_SIZE, LS_INIT_NPLATE, LS_INIT_ENSEMBLE, LS_INIT_POLICY, LS_INIT_MSE, LS_INIT_DBAL, LS_INIT_BAYESIAN, LS_INIT_METRIC]
ALL += LS_INITS
# ---- the small functions (wave 6): ThetaHolder.__iter__ and Metric.evaluate_all (core.py; vocabulary: Model/Thetas.v; generated file
# Generated/SrcCoreSmall.v; proofs Proofs/C10Source_Iter.v, C10Source_EvaluateAll.v).  A holder object is `pyobj` as in the C10 block.
# __iter__ is a generator: it denotes the list it yields.  evaluate_all: iterating the holder runs the translated __iter__; the
# abstract method self.evaluate is ANY function `ev` of a sample that may raise; np.array(list) = the same values.
LS_HOLDER_ITER = dict(
    _C10, out="SrcCoreSmall.v", func="__iter__", name="src_holder_iter", pyparams=["self"],
    params=[("P", "Type"), ("S", "Type"), ("self", _OBJ)], returns="list " + _THETA, generator=_THETA, vars={"theta": _THETA})
LS_METRIC_EVALUATE_ALL = dict(
    file="src/batchie/core.py", cls="Metric", func="evaluate_all", out="SrcCoreSmall.v", imports="Model.Thetas", name="src_metric_evaluate_all",
    pyparams=["self", "results_holder"],
    params=[("P", "Type"), ("S", "Type"), ("V", "Type"), ("ev", "theta P S -> result V"), ("results_holder", _OBJ)],
    returns="list V", vars={"x": _THETA},
    prims=[("results_holder", "!src_holder_iter P S results_holder'", "list " + _THETA),       # `for x in holder` = holder.__iter__()
           ("self.evaluate(__x)", "!ev {x}", "V", {"x": _THETA}),
           ("np.array(__l)", "{l}", "list V", {"l": "list V"})])
ALL += [LS_HOLDER_ITER, LS_METRIC_EVALUATE_ALL]
# ---- the small functions (wave 6): SimulationTracker.__init__ / save / load (core.py; vocabulary: Model/Tracker.v; generated file
# Generated/SrcTracker.v; proofs Proofs/C10Source_Tracker.v).  J = a JSON-native value; the object is the triple of its attributes (typed
# fields); the JSON file is `jfile J`.  Trusted per entry, ONE call each:
#   open(fn, "w") as f = a new empty file;  open(fn, "r") as f = what the file holds (the parameter `file`)
#   self.__dict__                the instance dict: the three attributes __init__ assigns, by name, in that order
#   json.dump(d, f)              the file then holds the object d (a second document in one file: tag 95)
#   json.load(f)                 the object the file holds (an empty file: tag 95)
# cls(**data) is the translator's keyword call with ** unpacking (TypeError = tag 93 unless the keys are exactly the parameters).
_TRK = "(pytracker J)"
_TRK_FIELDS = {"plate_ids_selected": (_TRK, "J", "tr_plates {obj}", "set_tr_plates {obj} {val}"),
               "losses": (_TRK, "J", "tr_losses {obj}", "set_tr_losses {obj} {val}"),
               "seed": (_TRK, "J", "tr_seed {obj}", "set_tr_seed {obj} {val}")}
_LS_TRACKER = dict(file="src/batchie/core.py", cls="SimulationTracker", out="SrcTracker.v", imports="Model.Tracker", fields=_TRK_FIELDS,
                   strings=True, strdict_elem="J", type_error=93, key_error=93)
LS_TRACKER_INIT = dict(
    _LS_TRACKER, func="__init__", name="src_tracker_init", pyparams=["self", "plate_ids_selected", "losses", "seed"],
    params=[("J", "Type"), ("self", _TRK), ("plate_ids_selected", "J"), ("losses", "J"), ("seed", "J")], returns=_TRK, vars={},
    implicit_return="{self}")
LS_TRACKER_SAVE = dict(
    _LS_TRACKER, func="save", name="src_tracker_save", pyparams=["self", "fn"],
    params=[("J", "Type"), ("self", _TRK)], returns="(jfile J)", vars={"f": "(jfile J)"},       # returns what has been written to `fn`
    contexts=[("open(fn, 'w')", "jfile_new", "(jfile J)")],
    prims=[("self.__dict__", "tracker_dict self'", "strdict J")],
    typed_effects=[("json.dump(__d, f)", "f'", "!json_dump {state} {d}", {"d": "strdict J"})],
    implicit_return="{f}")
LS_TRACKER_LOAD = dict(
    _LS_TRACKER, func="load", name="src_tracker_load", pyparams=["cls", "fn"],
    # file = what `fn` holds; blank = the fresh instance cls.__new__ makes (ANY value: __init__ overwrites all three attributes)
    params=[("J", "Type"), ("blank", _TRK), ("file", "(jfile J)")], returns=_TRK, vars={"f": "(jfile J)", "data": "strdict J"},
    contexts=[("open(fn, 'r')", "file", "(jfile J)")],
    prims=[("json.load(__f)", "!json_load {f}", "strdict J", {"f": "(jfile J)"})],
    kwcalls={"cls": ("!src_tracker_init J blank {plate_ids_selected} {losses} {seed}", _TRK,
                     [("plate_ids_selected", "J", None), ("losses", "J", None), ("seed", "J", None)])})
ALL += [LS_TRACKER_INIT, LS_TRACKER_SAVE, LS_TRACKER_LOAD]

# ---- C03 (gap review g1, C03 gap 2): create_plate_balanced_holdout_set_among_masked_plates once more, this time at the ID / MAPPING level.
# C11_BALANCED_HOLDOUT gives the two Screen(...) calls a rows-only meaning (screen_without / screen_observed_of forget ids and mappings).
# Here `screen` is the model Screen (Model/Screen.v: rows, ids, mappings) and the two Screen(...) calls are the translator's keyword calls
# (C12's _SCREEN_CALL: the model's constructor applied to the keyword arguments THE CALL SITE passes; an argument that is not passed is None), so
# "both halves receive treatment_mapping=screen.treatment_mapping and sample_mapping=screen.sample_mapping" is read from the source.
# Trusted per entry: one attribute read / one numpy call each; the loop prims are those of C11_BALANCED_HOLDOUT read on the rows of the screen.
C03_BALANCED_HOLDOUT = dict(
    file="src/batchie/retrospective.py", func="create_plate_balanced_holdout_set_among_masked_plates",
    out="SrcHoldoutIds.v", imports="Model.Encode Model.Screen Model.Reveal Model.Retro Model.RetroHoldout", name="src_balanced_holdout_ids",
    pyparams=["screen", "fraction", "rng"], overload=True,
    params=[("num", "Z"), ("den", "positive"), ("counts", "opt list Z"), ("screen", "screen"), ("ds", "list draw")],
    returns="(screen * screen)", return_state=["ds"],
    vars={"selection_vector": "bvec", "plate": "bvec", "plate_indices": "list nat", "n_sample": "Z",
          "downsampled_indices": "list nat", "keep_screen": "screen", "holdout_screen": "screen"},
    prims=[
        ("fraction < 0", "num <? 0", "bool"),
        ("fraction > 1", "Zpos den <? num", "bool"),
        ("np.zeros(screen.size, dtype=bool)", "repeat false (length (s_rows screen'))", "bvec"),
        ("screen.plates", "plates_of (s_rows screen')", "list bvec"),
        ("np.arange(screen.size)[__p.selection_vector]", "vec_indices {p}", "list nat", {"p": "bvec"}),
        ("__p.is_observed", "vec_observed {p} (s_rows screen')", "bool", {"p": "bvec"}),       # the plates' parent is `screen`
        ("__p.size", "plate_size {p}", "Z", {"p": "bvec"}),
        ("~__v", "map negb {v}", "bvec", {"v": "bvec"}),                                  # ~ on a bool array
        # a[m], boolean-mask indexing along axis 0, at each array type of the Screen attributes
        ("__a[__m]", "select {m} {a}", "list Z", {"a": "list Z", "m": "bvec"}),
        ("__a[__m]", "select {m} {a}", "list name", {"a": "list name", "m": "bvec"}),
        ("__a[__m]", "select {m} {a}", "list bool", {"a": "list bool", "m": "bvec"}),
        ("__a[__m]", "(fst {a}, select {m} (snd {a}))", "names2d", {"a": "names2d", "m": "bvec"}),
        ("__a[__m]", "(fst {a}, select {m} (snd {a}))", "doses2d", {"a": "doses2d", "m": "bvec"}),
        ("np.ones(np.count_nonzero(__v), dtype=bool)", "repeat true (vcount {v})", "list bool", {"v": "bvec"}),
    ] + _SCREEN_ATTRS,
    kwcalls=_SCREEN_CALL,
    state_calls=[
        ("math.ceil(__n * fraction)", ["counts"], "ceil_count {n} num den counts", "Z", {"n": "Z"}),
        ("rng.choice(__a, __n, replace=False)", ["ds"], "choose {a} {n} ds", "list nat", {"a": "list nat", "n": "Z"}),
    ],
    assign_effects=[("selection_vector[__i] = True", "selection_vector'", "set_true (length (s_rows screen')) {state} {i}")],
    raises=[("fraction must be between 0 and 1", 5)],
)
ALL += [C03_BALANCED_HOLDOUT]
# ---- C20: the reporting site cli/analyze_model_evaluation.main() (Model/CliAnalyze.v).  main() denotes the list of its effects on the
# output directory, in order.  Trusted primitives, one call each: get_args() = the record of parsed arguments; ThetaHolder(n_thetas=1) only
# reaches load_h5 / concat; the loads, correlation_matrix and the three metric methods = the components of the library record;
# os.path.join(dir, "<literal>") for the six literal file names = the pair (dir, name); os.makedirs(d, exist_ok=True), the five plotting
# calls and json.dump(d, f, indent=4) into open(path, "w") = one event each; the dict literal with exactly the three keys = the summary record.
# C18: the two regplot-drawing calls carry their `seed=` keyword (Some s; the call without the keyword = None, seaborn's unseeded
# bootstrap - the form main() had before the repair "fix: analyze_model_evaluation ignored --seed"); args.seed is the fifth field.
_AN_T = "(an_event Ev Co F)"
_AN_NAMES = [("sample_prediction_correlation.pdf", "N_heat"), ("predicted_vs_observed_scatterplot.pdf", "N_scatter"),
             ("predicted_vs_observed_by_sample_scatterplot.pdf", "N_scatter_sample"), ("per_sample_violin_plot.pdf", "N_violin"),
             ("per_sample_violin_plot__99th_percentiles.pdf", "N_violin99"), ("summary_statistics.json", "N_summary")]
CLI_ANALYZE = dict(
    out="SrcCliAnalyze.v", imports="Model.Cli Model.CliAnalyze", pyparams=[], predefine={"written": "[]"}, implicit_return="{written}",
    ignore=["log_config.configure_logging(args)", "logger.info(__a)"],
    file="src/batchie/cli/analyze_model_evaluation.py", func="main", name="src_cli_analyze",
    params=[("Scr", "Type"), ("Th", "Type"), ("Ev", "Type"), ("Co", "Type"), ("F", "Type"), ("L", "an_lib Scr Th Ev Co F"), ("argv", "an_args")],
    returns="list " + _AN_T,
    vars={"written": "list " + _AN_T, "args": "an_args", "theta_holder": "handle", "theta_holders": "list Th", "thetas": "Th", "screen": "Scr",
          "me": "Ev", "corr": "Co", "summary_statistics": "(an_summary F)", "f": "an_file"},
    fields=_arg_fields("an_args", "an", {"model_evaluation": "path", "screen": "path", "thetas": "list path", "output_dir": "path", "seed": "Z"}),
    prims=[("get_args()", "argv", "an_args"),
           _HOLDER_HANDLE,
           ("Screen.load_h5(__p)", "!an_load_screen L {p}", "Scr", {"p": "path"}),
           ("ModelEvaluation.load_h5(__p)", "!an_load_eval L {p}", "Ev", {"p": "path"}),
           ("__h.load_h5(__p)", "!an_load_thetas L {p}", "Th", {"h": "handle", "p": "path"}),
           ("__h.concat(__l)", "!an_concat_thetas L {l}", "Th", {"h": "handle", "l": "list Th"}),
           ("correlation_matrix(__s, __t)", "!an_correlation_matrix L {s} {t}", "Co", {"s": "Scr", "t": "Th"}),
           ("__e.mse()", "an_mse L {e}", "F", {"e": "Ev"}),
           ("__e.mse_variance()", "an_mse_variance L {e}", "F", {"e": "Ev"}),
           ("__e.inter_chain_mse_variance()", "an_inter_chain L {e}", "F", {"e": "Ev"}),
           ("{'mse': __a, 'mse_variance': __b, 'inter_chain_mse_variance': __c}", "mk_an_summary {a} {b} {c}", "(an_summary F)",
            {"a": "F", "b": "F", "c": "F"})]
          + [("os.path.join(__d, %r)" % fn, "({d}, %s)" % nm, "an_file", {"d": "path"}) for fn, nm in _AN_NAMES],
    contexts=[("open(__p, 'w')", "{p}", "an_file", {"p": "an_file"})],
    typed_effects=[("os.makedirs(__d, exist_ok=True)", "written'", "{state} ++ [AnMkdir {d}]", {"d": "path"}),
                   ("plotting.plot_correlation_heatmap(__c, __f)", "written'", "{state} ++ [AnHeat {c} {f}]", {"c": "Co", "f": "an_file"}),
                   ("plotting.predicted_vs_observed_scatterplot(__e, __f)", "written'", "{state} ++ [AnScatter {e} {f} None]", {"e": "Ev", "f": "an_file"}),
                   ("plotting.predicted_vs_observed_scatterplot(__e, __f, seed=__s)", "written'", "{state} ++ [AnScatter {e} {f} (Some {s})]",
                    {"e": "Ev", "f": "an_file", "s": "Z"}),
                   ("plotting.predicted_vs_observed_scatterplot_per_sample(__e, __f)", "written'", "{state} ++ [AnScatterSample {e} {f} None]",
                    {"e": "Ev", "f": "an_file"}),
                   ("plotting.predicted_vs_observed_scatterplot_per_sample(__e, __f, seed=__s)", "written'",
                    "{state} ++ [AnScatterSample {e} {f} (Some {s})]", {"e": "Ev", "f": "an_file", "s": "Z"}),
                   ("plotting.per_sample_violin_plot(__e, __f)", "written'", "{state} ++ [AnViolin {e} {f} None]", {"e": "Ev", "f": "an_file"}),
                   ("plotting.per_sample_violin_plot(__e, __f, percentile=__n)", "written'", "{state} ++ [AnViolin {e} {f} (Some {n})]",
                    {"e": "Ev", "f": "an_file", "n": "Z"}),
                   ("json.dump(__o, f, indent=4)", "written'", "{state} ++ [AnSummary {o} f']", {"o": "(an_summary F)"})],
)
ALL += [CLI_ANALYZE]
# ---- gap review G7.2: calculate_distance_matrix.get_args (the one function of C07's path that was not translated) and
# calculate_distance_matrix.main once more as a whole command (get_args() = the translated get_args on the raw namespace,
# args.metric_cls(**args.metric_params) = `construct` on the two attributes get_args() stored).  Output file of its own
# (failure isolation); vocabulary: end of Model/Cli.v (cd_ns); proofs: Proofs/C07SourceArgs.v.
_CD_NS = "(cd_ns Cls F O)"
_CD_NS_FIELDS = _ns_fields(_CD_NS, {
    "distance_metric": ("str", "cd_distance_metric {obj}", _NOSET),
    "distance_metric_param": ("opt " + _KD_SS, "cd_distance_metric_param {obj}", _NOSET),
    "metric_cls": ("opt Cls", "cd_metric_cls {obj}", "cd_set_metric_cls {obj} {val}"),
    "metric_params": (_KD_SV, "cd_metric_params {obj}", "cd_set_metric_params {obj} {val}")})
_GA_CD = dict(_GA, out="SrcCliArgsDist.v", imports=_NS_IMPORTS + " Generated.SrcCliArgs")
ARGS_GET_ARGS_CD = dict(
    _GA_CD, file="src/batchie/cli/calculate_distance_matrix.py", name="src_cd_get_args", params=_GA_PARAMS + [("raw", _CD_NS)], returns=_CD_NS,
    vars={"parser": "handle", "args": _CD_NS, "required_args": _KD_SA}, fields=_CD_NS_FIELDS,
    prims=_ga_prims(_CD_NS) + [("DistanceMetric", "BDistanceMetric", "base_class")], kwcalls=_GET_CLASS)
ARGS_CMD_CD = _cmd(CLI_DISTANCE_MATRIX, _CD_NS, "cd", "src_cli_calculate_distance_matrix_cmd", "src_cd_get_args",
                   [("construct", _CONSTRUCT_T + "Me")], _CD_NS_FIELDS, ["args.metric_cls(**args.metric_params)"],
                   [_construct("construct", "Me")])
ARGS_CMD_CD["out"] = "SrcCliArgsDist.v"
ARGS_CMD_CD["imports"] = _NS_IMPORTS + " Generated.SrcCliArgs"
ALL += [ARGS_GET_ARGS_CD, ARGS_CMD_CD]
# ---- C04 (gap round): ComboGridFactorModel._add_observations (models/grid_combo.py; vocabulary: the last part of Model/Train.v).
# The six numpy arrays of the object are six variables (attr_vars).  Trusted: unpack_data(...) with use_mask=True as ONE primitive =
# Train.unpack_cols u data (row-wise over the rows with mask, value-blind: see Model/Train.v), np.concatenate([a, b]) = a ++ b,
# np.clip with the literal bounds of the call, a[mask] = select, the >= 0.0 test and .all() as in the other C04 entries.
_GRID_ATTRS = {"self.sample_ids": "g_sample_ids", "self.log_concs_1": "g_log_concs_1", "self.log_concs_2": "g_log_concs_2",
               "self.drug_ids_1": "g_drug_ids_1", "self.drug_ids_2": "g_drug_ids_2", "self.y": "g_y"}
C04_GRID_ADD = dict(
    _C04, out="SrcTrainGrid.v", file="src/batchie/models/grid_combo.py", cls="ComboGridFactorModel", func="_add_observations",
    name="src_grid_add_observations", pyparams=["self", "data"],
    attr_vars=_GRID_ATTRS,
    params=[("C", "Type"), ("u", "unpack_fn C"), ("g_sample_ids", "list Z"), ("g_log_concs_1", "list C"), ("g_log_concs_2", "list C"),
            ("g_drug_ids_1", "list Z"), ("g_drug_ids_2", "list Z"), ("g_y", "list oval"), ("data", "list trow")],
    returns="(list Z * list C * list C * list Z * list Z * list oval)",
    vars={"sample_ids": "list Z", "drug_ids_1": "list Z", "drug_ids_2": "list Z", "log_conc1": "list C", "log_conc2": "list C",
          "mask": "list bool", "g_sample_ids": "list Z", "g_log_concs_1": "list C", "g_log_concs_2": "list C",
          "g_drug_ids_1": "list Z", "g_drug_ids_2": "list Z", "g_y": "list oval"},
    overload=True,
    float_literals=("q_of_pair ({n}, {d})", "Qc"),
    prims=_C04_ROWS + _C04_NUMPY + [
        ("unpack_data(data=data, drugname2idx=self.drugname2idx, use_mask=True)", "unpack_cols u data'",
         "(list Z * list Z * list Z * list C * list C)"),
        ("np.clip(__a, a_min=__lo, a_max=__hi)", "map (oclip_at {lo} {hi}) {a}", "list oval", {"a": "list oval", "lo": "Qc", "hi": "Qc"}),
        ("__a[__m]", "select {m} {a}", "list oval", {"a": "list oval", "m": "list bool"}),
    ] + [("np.concatenate([__a, __b])", "({a} ++ {b})", t, {"a": t, "b": t}) for t in ("list Z", "list C", "list oval")],
    raises=[("Observations should be non-negative", 2)],
    implicit_return="({g_sample_ids}, {g_log_concs_1}, {g_log_concs_2}, {g_drug_ids_1}, {g_drug_ids_2}, {g_y})",
)
ALL += [C04_GRID_ADD]
