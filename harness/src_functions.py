"""Configurations of the whole-function translations (harness/py2gal.py) written into
coq/theories/Generated/ on every run by gen_consts.py.  One entry per translated function."""

C16_FILTER = dict(
    file="src/batchie/policies/k_per_sample.py", cls="KPerSamplePlatePolicy", func="filter_eligible_plates",
    out="SrcPolicy.v", imports="Model.Policy", name="src_filter_eligible_plates",
    pyparams=["self", "batch_plates", "unobserved_plates", "rng"], unused_params=["rng"],
    params=[("k", "Z"), ("batch_plates", "list plate"), ("unobserved_plates", "list plate")],
    returns="list plate",
    vars={
        "plate": "plate", "sample_id": "Z", "v": "Z",
        "n_plates_per_sample": "dict", "n_plates_already_selected_per_sample": "dict",
        "sample_ids_with_insufficient_plates": "set", "sample_chosen": "opt Z",
        "result": "list plate", "sample_id_has_not_yet_been_selected": "bool",
    },
    prims=[
        ("self.k", "k", "Z"),
        ("__p.n_unique_samples", "n_unique (rows {p})", "Z"),     # Plate.n_unique_samples = len(np.unique(sample_ids))
        ("__p.sample_ids[0]", "sample_of {p}", "Z"),              # first row's sample id
        ("defaultdict(int)", "[]", "dict"),
        ("set()", "[]", "set"),
    ],
    raises=[("KPerSampleBatcher only works if all plates", 1)],
)

ALL = [C16_FILTER]
