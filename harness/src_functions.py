"""Configurations of the whole-function translations (harness/py2gal.py) written into
coq/theories/Generated/ on every run by gen_consts.py.  One entry per translated function."""

C16_FILTER = dict(
    file="src/batchie/policies/k_per_sample.py", cls="KPerSamplePlatePolicy", func="filter_eligible_plates",
    out="SrcPolicy.v", imports="Model.Policy", name="src_filter_eligible_plates",
    pyparams=["self", "batch_plates", "unobserved_plates", "rng"], unused_params=["rng"],
    params=[("k", "Z"), ("batch_plates", "list plate"), ("unobserved_plates", "list plate")],
    returns="list plate",
    vars={
        "plate": "plate", "sample_id": "Z", "v": "Z",
        "n_plates_per_sample": "dict", "n_plates_already_selected_per_sample": "dict",
        "sample_ids_with_insufficient_plates": "set", "sample_chosen": "opt Z",
        "result": "list plate", "sample_id_has_not_yet_been_selected": "bool",
    },
    prims=[
        ("self.k", "k", "Z"),
        ("__p.n_unique_samples", "n_unique (rows {p})", "Z"),     # Plate.n_unique_samples = len(np.unique(sample_ids))
        ("__p.sample_ids[0]", "sample_of {p}", "Z"),              # first row's sample id
        ("defaultdict(int)", "[]", "dict"),
        ("set()", "[]", "set"),
    ],
    raises=[("KPerSampleBatcher only works if all plates", 1)],
)

C17_SAMPLE = dict(
    file="src/batchie/sampling.py", func="sample",
    out="SrcSampling.v", imports="Model.Sampling", name="src_sample",
    pyparams=["model", "results", "seed", "n_chains", "chain_index", "n_burnin", "thin", "progress_bar"],
    # kind: which class the model object is an instance of (0 MCMCModel, 1 VIModel, other neither);
    # n_thetas = results.n_thetas; w = (calls so far, len(results.thetas)); returned = len(model.sample(...))
    params=[("kind", "Z"), ("seed", "Z"), ("n_chains", "opt Z"), ("chain_index", "opt Z"), ("n_burnin", "opt Z"),
            ("thin", "opt Z"), ("n_thetas", "Z"), ("w", "world"), ("returned", "nat")],
    returns="world",
    vars={"seeds": "seeds", "rng": "rngkey", "total_steps": "Z", "step_index": "Z", "samples": "list theta", "theta": "theta"},
    match_class={"model": {"MCMCModel": "kind =? 0", "VIModel": "kind =? 1"}},
    range_like=("range", "trange"),     # tqdm.trange(n, disable=...) iterates range(n)
    prims=[
        ("results.n_thetas", "n_thetas", "Z"),
        ("results", "w", "world"),
        ("numpy.random.SeedSequence(__s).spawn(__n)", "!spawn_seeds {s} {n}", "seeds", {"s": "Z", "n": "Z"}),
        ("numpy.random.default_rng(__q[__i])", "!rng_of_spawned {q} {i}", "rngkey", {"q": "seeds", "i": "Z"}),
        ("numpy.random.default_rng(__s)", "!rng_of_seed {s}", "rngkey", {"s": "Z"}),
    ],
    effects=[
        ("model.reset_model()", "w", "emit {state} Reset"),
        ("model.set_rng(__r)", "w", "emit {state} (SetRng (fst {r}) (snd {r}))"),
        ("model.step()", "w", "emit {state} Step"),
        ("results.add_theta(model.get_model_state())", "w", "!add_theta n_thetas {state}"),
        ("results.add_theta(__t)", "w", "!add_theta n_thetas {state}"),
    ],
    effect_calls=[
        ("model.sample(num_samples=__n)", "w", "emit {state} (SampleVI {n})", "vi_samples returned", "list theta"),
    ],
    ignore=["logger.info(__a)"],
    raises=[("n_chains must be set", 5), ("chain_index must be set", 5), ("n_burnin must be set", 5),
            ("thin must be set", 5), ("model must be one of", 6)],
)

# C11 / C13: the wrappers of every retrospective generator / smoother (core.py).  `f` is the abstract method
# (self._generate_plates / self._smooth_plates): ANY function of the screen and the unread recorded answers `ds`.
_C11_WRAP = dict(
    file="src/batchie/core.py", out="SrcRetro.v", imports="Model.Encode Model.Screen Model.Retro",
    pyparams=["self", "screen", "rng"],
    params=[("f", "inner"), ("screen", "screen_t"), ("ds", "list draw")],
    returns="screen_t", return_state=["ds"],
    vars={"unobserved_subset": "opt subset_t", "observed_subset": "opt subset_t",
          "new_unobserved_subset": "screen_t", "combined_screen": "screen_t"},
    prims=[
        ("__s.subset_unobserved()", "subset_unobserved {s}", "opt subset_t", {"s": "screen_t"}),
        ("__s.subset_observed()", "subset_observed {s}", "opt subset_t", {"s": "screen_t"}),
        ("__s.to_screen()", "to_screen {s}", "screen_t", {"s": "subset_t"}),
        ("__a.combine(__b)", "!combine_screens {a} {b}", "screen_t", {"a": "screen_t", "b": "screen_t"}),
    ],
    ignore=["logger.warning(__a)"],
)
C11_GENERATE_PLATES = dict(
    _C11_WRAP, cls="RetrospectivePlateGenerator", func="generate_plates", name="src_generate_plates",
    state_calls=[("self._generate_plates(__s, rng)", ["ds"], "f {s} ds", "screen_t", {"s": "screen_t"})])
C11_SMOOTH_PLATES = dict(
    _C11_WRAP, cls="RetrospectivePlateSmoother", func="smooth_plates", name="src_smooth_plates",
    state_calls=[("self._smooth_plates(__s, rng)", ["ds"], "f {s} ds", "screen_t", {"s": "screen_t"})])

# MergeMinPlateSmoother (retrospective.py).  A Plate is its selection vector (`bvec`) into its parent screen `s`, which
# Plate.merge mutates in place: the parent of every plate the method handles is `current_screen` (they all come from
# current_screen.plates), so the primitives that read or write the parent name that variable.
C13_MERGEMIN_SAMPLE_ID = dict(
    file="src/batchie/retrospective.py", cls="MergeMinPlateSmoother", func="_get_plate_sample_id",
    out="SrcRetro.v", imports="Model.Encode Model.Screen Model.Retro", name="src_merge_min_get_plate_sample_id",
    pyparams=["self", "plate"], params=[("s", "screen_t"), ("plate", "bvec")], returns="name", vars={},
    prims=[
        ("__p.unique_sample_ids", "plate_unique_samples {p} s", "list name", {"p": "bvec"}),
        ("len(__l)", "zlen {l}", "Z"),
        ("__l[0]", "!first_item {l}", "name", {"l": "list name"}),
    ],
    raises=[("only valid for one-sample-per-plate designs", 4)],
)
C13_MERGEMIN = dict(
    file="src/batchie/retrospective.py", cls="MergeMinPlateSmoother", func="_smooth_plates",
    out="SrcRetro.v", imports="Model.Encode Model.Screen Model.Retro", name="src_merge_min_smooth_plates",
    pyparams=["self", "screen", "rng"], unused_params=["rng"],
    params=[("min_size", "Z"), ("screen", "screen_t"), ("ds", "list draw"), ("fuel", "nat")],
    returns="screen_t", return_state=["ds"], while_fuel="fuel",
    vars={"current_screen": "screen_t", "sample_id": "name", "plate_heap": "list bvec", "smallest_plate": "bvec",
          "second_smallest_plate": "bvec", "merged_plate": "bvec"},
    eqb={"name": "name_eqb"},
    prims=[
        ("self.min_size", "min_size", "Z"),
        ("__s.unique_sample_ids", "sample_names {s}", "list name", {"s": "screen_t"}),   # ids = ranks of the sorted names
        ("__s.plates", "plates_of {s}", "list bvec", {"s": "screen_t"}),
        ("self._get_plate_sample_id(__p)", "!src_merge_min_get_plate_sample_id current_screen' {p}", "name", {"p": "bvec"}),
        ("len(__l)", "zlen {l}", "Z"),
        ("__p.size", "plate_size {p}", "Z", {"p": "bvec"}),
    ],
    effects=[
        ("heapq.heapify(plate_heap)", "plate_heap'", "{state}"),                    # heap = the list of its items (see pop)
        ("heapq.heappush(plate_heap, __x)", "plate_heap'", "{state} ++ [{x}]"),
    ],
    # heapq.heappop: the recorded answer says which item came out; refused unless it is a smallest one (heapq's contract)
    state_calls=[("heapq.heappop(plate_heap)", ["plate_heap'", "ds"], "pop plate_heap' ds", "bvec")],
    # Plate.merge: relabels the union in the parent, returns the merged plate
    effect_calls=[("__b.merge(__a)", "current_screen'", "snd (merge {b} {a} {state})", "fst (merge {b} {a} {state})", "bvec")],
    ignore=["logger.info(__a)"],
)

# create_plate_balanced_holdout_set_among_masked_plates (retrospective.py).  The float `fraction` is the exact rational
# num/den (Model/RetroHoldout.v); it occurs in the source only inside the three primitives below.
_COLS = ("treatment_names=__s.treatment_names[{i}], treatment_doses=__s.treatment_doses[{i}], observations=__s.observations[{i}], "
         "sample_names=__s.sample_names[{i}], plate_names=__s.plate_names[{i}], control_treatment_name=__s.control_treatment_name, "
         "observation_mask={m}, treatment_mapping=__s.treatment_mapping, sample_mapping=__s.sample_mapping")
C11_BALANCED_HOLDOUT = dict(
    file="src/batchie/retrospective.py", func="create_plate_balanced_holdout_set_among_masked_plates",
    out="SrcRetro.v", imports="Model.Encode Model.Screen Model.Retro Model.RetroHoldout", name="src_balanced_holdout",
    pyparams=["screen", "fraction", "rng"],
    params=[("num", "Z"), ("den", "positive"), ("counts", "opt list Z"), ("screen", "screen_t"), ("ds", "list draw")],
    returns="(screen_t * screen_t)", return_state=["ds"],
    vars={"selection_vector": "bvec", "plate": "bvec", "plate_indices": "list nat", "n_sample": "Z",
          "downsampled_indices": "list nat", "keep_screen": "screen_t", "holdout_screen": "screen_t"},
    prims=[
        ("fraction < 0", "num <? 0", "bool"),
        ("fraction > 1", "Zpos den <? num", "bool"),
        ("np.zeros(__s.size, dtype=bool)", "repeat false (length {s})", "bvec", {"s": "screen_t"}),
        ("__s.plates", "plates_of {s}", "list bvec", {"s": "screen_t"}),
        ("np.arange(__s.size)[__p.selection_vector]", "vec_indices {p}", "list nat", {"s": "screen_t", "p": "bvec"}),
        ("__p.is_observed", "vec_observed {p} screen'", "bool", {"p": "bvec"}),       # the plates' parent is `screen`
        ("__p.size", "plate_size {p}", "Z", {"p": "bvec"}),
        ("Screen(" + _COLS.format(i="~__v", m="__s.observation_mask[~__v]") + ")", "!screen_without {s} {v}", "screen_t",
         {"s": "screen_t", "v": "bvec"}),
        ("Screen(" + _COLS.format(i="__v", m="np.ones(np.count_nonzero(__v), dtype=bool)") + ")", "!screen_observed_of {s} {v}",
         "screen_t", {"s": "screen_t", "v": "bvec"}),
    ],
    state_calls=[
        ("math.ceil(__n * fraction)", ["counts"], "ceil_count {n} num den counts", "Z", {"n": "Z"}),
        ("rng.choice(__a, __n, replace=False)", ["ds"], "choose {a} {n} ds", "list nat", {"a": "list nat", "n": "Z"}),
    ],
    assign_effects=[("selection_vector[__i] = True", "selection_vector'", "set_true (length screen') {state} {i}")],
    raises=[("fraction must be between 0 and 1", 5)],
)

# MergeTopBottomPlateSmoother (retrospective.py): same conventions as MergeMin; no random / heap answers are consumed.
C13_MERGETB_SAMPLE_ID = dict(C13_MERGEMIN_SAMPLE_ID, cls="MergeTopBottomPlateSmoother", name="src_merge_tb_get_plate_sample_id")
C13_MERGETB = dict(
    file="src/batchie/retrospective.py", cls="MergeTopBottomPlateSmoother", func="_smooth_plates",
    out="SrcRetro.v", imports="Model.Encode Model.Screen Model.Retro", name="src_merge_tb_smooth_plates",
    pyparams=["self", "screen", "rng"], unused_params=["rng"],
    params=[("n_iter", "Z"), ("screen", "screen_t")],
    returns="screen_t",
    vars={"current_screen": "screen_t", "sample_id": "name", "i": "Z", "plates": "list bvec", "halfway": "Z",
          "smaller_plate": "bvec", "bigger_plate": "bvec"},
    eqb={"name": "name_eqb"},
    prims=[
        ("self.n_iterations", "n_iter", "Z"),
        ("__s.unique_sample_ids", "sample_names {s}", "list name", {"s": "screen_t"}),
        ("__s.plates", "plates_of {s}", "list bvec", {"s": "screen_t"}),
        ("self._get_plate_sample_id(__p)", "!src_merge_tb_get_plate_sample_id current_screen' {p}", "name", {"p": "bvec"}),
        ("math.floor(len(__l) / 2)", "zlen {l} / 2", "Z"),               # floor of the true quotient = integer quotient
        ("len(__l)", "zlen {l}", "Z"),
        ("sorted(__l, key=lambda x: x.size)", "sort_sz {l}", "list bvec"),   # stable sort by size
        ("zip(__a, __b)", "combine {a} {b}", "list (bvec * bvec)", {"a": "list bvec", "b": "list bvec"}),
        ("list(reversed(__l))", "rev {l}", "list bvec", {"l": "list bvec"}),
        ("__l[:__n]", "firstn (Z.to_nat {n}) {l}", "list bvec", {"l": "list bvec", "n": "Z"}),
    ],
    effects=[("__b.merge(__a)", "current_screen'", "snd (merge {b} {a} {state})")],   # Plate.merge relabels in the parent
    ignore=["logger.info(__a)"],
)

ALL = [C16_FILTER, C17_SAMPLE, C11_GENERATE_PLATES, C11_SMOOTH_PLATES, C13_MERGEMIN_SAMPLE_ID, C13_MERGEMIN, C11_BALANCED_HOLDOUT,
       C13_MERGETB_SAMPLE_ID, C13_MERGETB]
