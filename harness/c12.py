"""C12 — plates are observed atomically; revealing is exact, monotone, value-preserving."""
import math
import re

import common
import screenlib as sl
import simlib
from common import ImplError, cmp_result, impl_call

ID = "C12"
LEVEL = "proof"
RULE = ("kind sim: a parent screen (1-5 plates, plate-uniform masks, observation values incl. 0.0, -0.0, NaN, inf, subnormal; whole "
        "plates all-zero or containing NaN) is split by the REAL create_plate_balanced_holdout_set_among_masked_plates and a random "
        "history (length <= 6) of reveal (any order, repeated / already observed / unknown / negative ids, empty id list) / mask / "
        "unmask / save+load through h5py / reveal_plate CLI main() / extract_screen_metadata CLI main() / set_observed (exact, "
        "broadcast, wrong counts, wrong length) runs on the training or test half; after EVERY operation the rows with observation "
        "bit patterns and masks, plate ids, plate mapping and the six metadata counters are compared with the extracted model. "
        "kind ctor: the constructor alone on rows with uniform / mixed plates, observations and mask given or not.  Nothing compared "
        "or predicated depends on sample / treatment ids.  Non-trivial: >= 1 operation (sim) or >= 2 rows (ctor); distinct by "
        "canonical description.  Every fourth parent carries the plate names the real preparation produces (initial_plate, unobserved_pl, "
        "generated_plate_10 / _2 / _1: string order, not numeric).  Predicates added by the gap round: the reveal guards PER PLATE "
        "(an accepted reveal must not name a plate of the screen whose stored values are all zero, alone or beside plates with real "
        "values - the defect reveal-zero-guard-is-joint, repaired by fix fx5 and JUDGED since: no signature is folded, the old "
        "witness is corpus/C12/zero-plate-beside-nonzero.json; a refusal is justified by any named all-zero / NaN plate); the three plate counters recomputed from plate names and mask alone (no Plate API) "
        "for every screen of the history and for screen_metadata.json; purity: after every returned screen all earlier screens of the "
        "history are re-read and must be unchanged (set_observed excepted).  40 further sim cases use parents whose plate NAMES are integer "
        "literals that differ from the plate ids (\"1\"..\"12\" in string order, 1-based, descending, zero-padded) with reveal_plate CLI / "
        "extract_screen_metadata CLI operations: `--plate-id 2 5` must observe exactly the plates with IDS 2 and 5 and the reported counter "
        "must drop by the number of newly revealed plates.")
THEOREMS = {
    "C12_atomic_invariant": "every screen reached from a constructed screen by any history of reveal/mask/unmask/save+load (any variant) has a plate-uniform mask",
    "C12_atomic_invariant_lifecycle": "the same for both halves of any hold-out split",
    "C12_history_never_mixed": "no operation of such a history is ever refused for a mixed plate (error tag 2)",
    "C12_plate_uniform_meaning": "plate_uniform rows <-> rows with the same plate name have the same mask",
    "C12_constructed_plates_encoded": "a constructed screen's plate ids are the encoding of its plate names",
    "C12_reveal_exact": "reveal = Ok: every new row is the old row with mask := old mask OR (its plate id in ids); sample, plate, treatments, stored "
                        "observation bits, plate ids, plate mapping unchanged",
    "C12_reveal_mask": "the row-by-row mask equation new = old | (plate id in ids)",
    "C12_reveal_monotone": "reveal = Ok: row i keeps its conditions/plate/value and, if observed before, is observed after",
    "C12_reveal_defined": "on a constructed screen where the zero guard does not fire (reveal_zero_guard = false: some row selected, the selected values "
                          "not all zero, NO selected plate all zero) and the selected values are NaN-free, reveal returns Ok",
    "C12_step_defined": "mask / unmask / save+load are always defined on a constructed screen; reveal exactly when its guards pass (call sites passing "
                        "mappings need them valid)",
    "C12_repaired_lifecycle_defined": "repaired construction: the same along any lifecycle from a split, without side conditions",
    "C12_unobserved_drop": "reveal = Ok: n_unobserved_plates before = after + |newly_revealed|; n_plates and the set of plate ids unchanged",
    "C12_newly_revealed_meaning": "newly_revealed s ids is duplicate-free and contains exactly the screen's plate ids that occur in ids and were not observed",
    "C12_unique_plate_ids_meaning": "screen.plates ranges over the duplicate-free set of plate ids of the rows",
    "C12_plate_observed_meaning": "Plate.is_observed <-> every row of the plate is observed",
    "C12_counters_add_up": "n_observed_plates + n_unobserved_plates = n_plates",
    "C12_ctor_rejects_mixed": "constructor with observations and mask, two rows of one plate with different mask => Err 2",
    "C12_ctor_err2_only_if_mixed": "constructor Err 2 => observations and mask were given and such two rows exist",
    "C12_ctor_obs_without_mask": "observations without mask => all rows observed, values stored verbatim",
    "C12_ctor_no_obs": "no observations => all rows unobserved with value 0, conditions verbatim",
    "C12_ctor_mask_without_obs": "mask without observations => Err 7",
    "C12_set_observed_exact": "set_observed = Ok: the k-th selected row gets the k-th given value (or the single broadcast value) and mask true; "
                              "unselected rows and all other fields unchanged",
    "C12_set_observed_refuses": "selection length <> size => Err 10; value count neither the number selected nor 1 => Err 11",
    "C12_reveal_refuses_zero": "selected values all zero (+0.0 / -0.0; incl. no row selected) => Err 8",
    "C12_reveal_refuses_unknown": "ids that name no plate of the screen (incl. the empty list) => Err 8",
    "C12_reveal_refuses_nan": "selected values contain a NaN => refused: Err 9, or Err 8 when the zero guard (tested first) fires because another selected "
                              "plate is all zero; the selection is then never jointly zero",
    "C12_reveal_refuses_zero_per_plate": "PER PLATE, full strength (since fix fx5): ONE named plate of the screen whose stored values are all zero => the whole "
                                         "reveal is refused (Err 8), whatever else is named",
    "C12_reveal_refuses_nan_per_plate": "PER PLATE: one named plate whose stored values contain a NaN => the whole reveal is refused (Err 9, or Err 8 when the "
                                        "zero guard fires as well)",
    "C12_reveal_zero_guard_meaning": "the zero guard fires <-> the selected values are all zero (incl. nothing selected) or some id names a plate of the screen "
                                     "whose stored values are all zero",
    "C12_reveal_ok_per_plate": "an ACCEPTED reveal: every named plate of the screen holds a non-zero value and no NaN",
    "C12_reveal_refuses_zero_per_plate_refuted": "the code BEFORE fix fx5 (reveal_plates_joint: np.all over the UNION of the selected rows only) did not satisfy the "
                                                 "per-plate clause: witness = constructed screen, unobserved non-empty all-zero plate 0 (alone: Err 8) named together "
                                                 "with plate 1 (0.5, 0.25): the old reveal returns a screen in which plate 0 is observed; the repaired model and the "
                                                 "translated source refuse the same call (Err 8)",
    "C12_mask_exact": "mask = Ok: all rows unobserved, everything else unchanged",
    "C12_unmask_exact": "unmask = Ok: all rows observed, everything else unchanged",
    "C12_save_load_exact": "save+load = Ok: rows (incl. mask and values), plate ids, plate mapping unchanged",
    "C12_model_is_source_reveal_plates": "the translation of the WHOLE function batchie.retrospective.reveal_plates, regenerated from the source on every "
                                         "run (np.isin reveal mask, joint all-zero guard, the loop over np.unique(plate_ids[reveal_mask]) with the per-plate all-zero guard, "
                                         "NaN guard, Screen(...) with observation_mask | reveal_mask and both "
                                         "mappings passed) EQUALS the model's reveal_plates (carry_mappings true) for every screen and id list",
    "C12_model_is_source_mask_screen": "the translation of mask_screen equals the model's mask_screen (carry_mappings true) for every screen",
    "C12_model_is_source_unmask_screen": "the translation of unmask_screen equals the model's unmask_screen (carry_mappings true) for every screen",
    "C12_model_is_source_set_observed": "the model's set_observed is the translation of Screen.set_observed run on the screen's observation and mask arrays "
                                        "(two numpy boolean-mask assignments), put back into the screen; for every screen, selection and value list",
    "C12_model_is_source_init_observations": "the translated statement run of Screen.__init__ that handles observations / observation_mask being None "
                                             "(mask without observations => error; observations without mask => ones; neither => zeros) yields exactly "
                                             "the columns of the rows the model's constructor stores, or its Err 7",
    "C12_model_is_source_init_plate_check": "the translated loop of Screen.__init__ over np.unique(plate_names) (mixed plate => ValueError) IS the model's "
                                            "plate_uniform: Ok iff plate_uniform, else Err 2",
    "C12_model_is_source_init_mask_rules": "mk_screen = refuse ragged rows; run the two translated statement runs; then mk_screen on the rows they leave "
                                           "with observations and mask given - for every argument combination",
    "C12_source_arrays_aligned": "on a screen with encoded plate ids (every constructed screen) all arrays the translated reveal_plates combines have "
                                 "one entry per row, so the truncating list meaning of a | b, a[mask] and the row zip is never exercised",
}
ASSUMPTIONS = [
    "observation values cross as float64 bit patterns (equality bit-for-bit; == 0 and isnan computed from the bits)",
    "the hold-out selection vector is an oracle input recorded from the real function (see C03)",
    "save_h5/load_h5 modelled as the constructor call load_h5 makes; HDF5 storage is the identity on arrays (C02); empty halves are not saved",
    "numpy boolean-mask assignment a[sel] = v: v has as many values as sel selects, or exactly one (broadcast); otherwise ValueError",
    "set_observed is outside the atomicity clause of the property (it performs no plate check): the invariant theorems range over "
    "reveal/mask/unmask/save/load; the model and the correspondence include set_observed, and a history continued after a partial-plate "
    "set_observed is refused by the next constructor call (Err 2) in model and code alike",
]
EXPLANATION = ("Model: Model/Reveal.v (reveal_plates incl. guards, mask_screen, unmask_screen, save_load, set_observed, metadata counters), "
               "Model/Holdout.v, Model/Screen.v (mk_screen mask rules).  reveal_plates takes ONE screen: the plate ids are that screen's own "
               "(rank of the plate name among the names present), so ids of the training half need not equal the parent's ids for the same "
               "plate; the model re-derives them per screen exactly like the code.  Remark (not part of the property): derived screens "
               "share the observation array with their source, so set_observed on a derived screen also changes the source's stored values.  "
               "SOURCE LINK (C12_model_is_source_*): reveal_plates, mask_screen, unmask_screen (retrospective.py), Screen.set_observed and the two "
               "statement runs of Screen.__init__ that decide observations / observation_mask (data.py) are re-translated from the source on "
               "every run by harness/py2gal.py (configurations C12_* in harness/src_functions.py, output coq/theories/Generated/SrcReveal.v) and "
               "proved equal to the model for all inputs (Proofs/C12Source.v).  The link TRUSTS the translator and exactly these primitives "
               "(meanings: end of Model/Reveal.v): a Screen object is the model's screen record; the attribute reads screen.treatment_names / "
               "treatment_doses / observations / sample_names / plate_names / observation_mask = the corresponding column of its rows (2-d arrays "
               "with their second dimension), screen.control_treatment_name, screen.plate_ids, screen.size, screen.treatment_mapping / "
               "sample_mapping = the stored mapping with the flag 'integer id dtype'; numpy, one call each: np.isin(a, l), a[bool mask], "
               "x == 0 and np.isnan(x) on a float array (bit patterns), np.all, np.any, a | b, np.zeros / np.ones(n, dtype=bool), "
               "np.unique on an int array (sorted, duplicate-free) and screen.plate_ids == plate_id (elementwise) for reveal_plates' per-plate loop, "
               "np.zeros((n,), dtype=float), a.shape != (n,), np.unique on strings (sorted, duplicate-free), names == name, bools == bool, "
               "a[0] (IndexError when empty), a[mask] = array / = scalar (IndexError on a wrong mask length, ValueError unless as many values "
               "as selected or one), np.issubdtype(<typed array>.dtype, <its type>) = True; and Screen(kw=...) = the model's constructor "
               "mk_screen on the rows zipped from the passed arrays, WHICH keyword arguments are passed being read from the call site (absent "
               "=> the default of Screen.__init__'s signature, which is checked).  For arrays of different lengths numpy raises where the list "
               "functions truncate; C12_source_arrays_aligned shows this cannot occur on a constructed screen.  Not translated: the other "
               "statements of Screen.__init__ (shape / dtype checks of the name and dose arrays, the id encoders = C01, attribute stores).")
# ---- source-translation links of the command-line wrappers (Model/Cli.v, Generated/SrcCli.v) ----
THEOREMS.update({
    'C12_model_is_source_cli_reveal_plate': 'the translation of the whole function reveal_plate.main regenerated on this run equals, for every record L of library functions and all parsed arguments, Cli.cli_reveal_plate: reveal_plates(load(--screen), --plate-id list) saved to --output',
    'C12_model_is_source_cli_extract_screen_metadata': "the translation of the whole function extract_screen_metadata.main regenerated on this run equals Cli.cli_extract_screen_metadata: the JSON object's counters - every plate of the loaded screen counted once, as observed or as unobserved - next to n_unique_samples, n_unique_treatments, size, n_plates",
    'C12_model_is_source_cli_extract_screen_metadata_counters': "instance with the library record filled by the TRANSLATED Screen.plates / ScreenBase.is_observed / n_plates / n_unique_samples / n_unique_treatments / size: on a constructed screen the written JSON counters are Model/Reveal.v's n_plates / n_unobserved_plates / n_observed_plates (the ones C12_unobserved_drop is about), size = number of rows",
    'C12_model_is_source_cli_reveal_plate_reveal': "instance over Model/Reveal.v with the library call standing for the TRANSLATED reveal_plates: the translated main = load, the model's reveal_plates (mappings carried), save",
})
EXPLANATION += ("  CLI wrappers: reveal_plate.main and extract_screen_metadata.main are re-translated as WHOLE functions on every run (Generated/SrcCli.v) and proved equal to Model/Cli.v.  These links trust the translator harness/py2gal.py (for these links extended by cfg typed_effects, kwcalls keys `module.function`, state_calls assigned to a tuple), the representation of Model/Cli.v (parsed arguments = a record of the plain argparse results, get_args() not translated = the primitive `get_args()` yielding that record; a main() denotes the list of (path, content) files it writes; `L` = ANY record of library functions over abstract types) and EXACTLY these primitives of harness/src_functions.py, each one field read / one library or constructor call standing for the function of that name (whose own link, where it exists, is the one of its property): CLI_REVEAL_PLATE: the fields of `args` read as the record's projections (a store to one is refused); ignored: log_config.configure_logging(args), logger.info/warning; Screen.load_h5(p), reveal_plates(s, ids), typed effect r.save_h5(p). CLI_EXTRACT_METADATA: the fields of `args` read as the record's projections (a store to one is refused); ignored: log_config.configure_logging(args), logger.info/warning; Screen.load_h5(p), s.plates, p.is_observed, s.n_unique_samples, s.n_unique_treatments, s.size, s.n_plates, the dict literal with exactly the six keys n_unique_samples, n_unique_treatments, size, n_plates, n_unobserved_plates, n_observed_plates = the record of their values, open(p, 'w'), typed effect json.dump(o, f, indent=4) = append (f, o); the counting loop is translated. ")


def _view(s):
    return [sl.canon_rows(s), [int(x) for x in s.plate_ids], sl.canon_nmap(s.plate_mapping), simlib.metadata(s)]


WATCHED = ["observation_mask", "observations", "plate_names", "plate_ids", "sample_names", "sample_ids", "treatment_names", "treatment_doses",
           "treatment_ids"]


class Watch:
    """the canonicaliser handed to simlib.run_history, which calls it on parent / train / test and on the screen every
    successful operation returns.  It keeps every screen object of the history with copies of its arrays and, at each call,
    re-reads all EARLIER screens: mask / unmask / reveal / save / load must leave their argument and every ancestor as
    they were (an operation that writes its result into the arrays of the screen it was given changes experiments the
    caller still holds).  Screen.set_observed is the one in-place operation: it returns the same object, and derived
    screens share its observation array, so a call on an already known object refreshes the copies instead."""

    def __init__(self):
        self.live = []     # (screen object, {attr: copy})
        self.diffs = []

    @staticmethod
    def _copy(s):
        import numpy as np
        return {a: np.array(getattr(s, a), copy=True) for a in WATCHED}

    def __call__(self, s):
        import numpy as np
        known = any(o is s for o, _ in self.live)
        if known:
            self.live = [(o, self._copy(o)) for o, _ in self.live]
        else:
            for n, (o, cp) in enumerate(self.live):
                for a in WATCHED:
                    cur = np.asarray(getattr(o, a))
                    same = cur.shape == cp[a].shape and (np.array_equal(cur, cp[a], equal_nan=True) if cur.dtype.kind == "f" else np.array_equal(cur, cp[a]))
                    if not same:
                        self.diffs.append("screen #%d of the history (0 parent, 1 train, 2 test, then one per returned screen) had its %s changed "
                                          "by a later mask / unmask / reveal / save / load: %r -> %r" % (n, a, cp[a].tolist(), cur.tolist()))
                        cp[a] = cur.copy()
            self.live.append((s, self._copy(s)))
        return _view(s)


def _uniform(mask, plates):
    first = {}
    for m, p in zip(mask, plates):
        if first.setdefault(p, m) != m:
            return False
    return True


def _isnan_bits(b):
    return math.isnan(sl.bits_obs(b))


def _same_rows(a, b, what):
    for k, nm in (("samples", "sample names"), ("treats", "treatments / doses"), ("plates", "plate assignment"), ("pids", "plate ids"),
                  ("obs", "stored observation values")):
        if a[k] != b[k]:
            return "%s changed the %s" % (what, nm)
    return None


def _zero_plates(b, ids):
    """plate ids named in ids, present in the screen, whose stored values are ALL zero (+0.0 / -0.0)"""
    out = []
    for p in sorted(set(b["pids"]) & set(ids)):
        if all(sl.bits_obs(v) == 0 for v, q in zip(b["obs"], b["pids"]) if q == p):
            out.append(p)
    return out


def _counters(snap):
    """[n_plates, n_unobserved, n_observed] recomputed from the snapshot's plate names and mask alone (no Plate / plates API):
    a plate counts as observed iff every one of its rows is (Plate.is_observed)"""
    by = {}
    for p, m in zip(snap["plates"], snap["mask"]):
        by[p] = by.get(p, True) and m
    return [len(by), sum(1 for v in by.values() if not v), sum(1 for v in by.values() if v)]


def _pred_strict(desc, h):
    if h["contract"]:
        return "[rng-contract] " + h["contract"]
    for nm in ("parent", "train", "test"):
        s = h["snaps"][nm]
        if not _uniform(s["mask"], s["plates"]):
            return "[atomic] the %s screen has a plate with mixed observation status" % nm
        if [s["meta"][1], s["meta"][2], s["meta"][3]] != _counters(s):
            return "[metadata] the %s screen reports n_plates / n_unobserved / n_observed = %r, its rows give %r" % (nm, s["meta"][1:4], _counters(s))
    for k, (o, before, after, err, extra) in enumerate(h["events"]):
        t = o[0]
        where = "op %d %r (history %r)" % (k, o[:2], [x[:2] for x in desc["ops"][:k + 1]])
        b = before
        was_uniform = _uniform(b["mask"], b["plates"])
        if "loaded" in extra:
            if was_uniform:
                m = _same_rows(b, extra["loaded"], "save+load") or (None if b["mask"] == extra["loaded"]["mask"] else "save+load changed the mask")
                if m:
                    return "[saveload-exact] %s: %s" % (where, m)
            b = extra["loaded"]
        if t in ("reveal", "cli_reveal"):
            ids = set(o[1])
            selected = [p in ids for p in b["pids"]]
            vals = [v for v, s_ in zip(b["obs"], selected) if s_]
            refuse_zero = all(sl.bits_obs(v) == 0 for v in vals)
            refuse_nan = any(_isnan_bits(v) for v in vals)
            exp = [m or s_ for m, s_ in zip(b["mask"], selected)]
            exp_uniform = _uniform(exp, b["plates"])
            zero_plates = _zero_plates(b, ids)
            if err is not None:
                if not (refuse_zero or refuse_nan or zero_plates) and exp_uniform:
                    return "[reveal-refuses] %s: refused a selection with a non-zero, NaN-free value: %r" % (where, err)
                continue
            if refuse_zero or refuse_nan:
                return "[reveal-refuses] %s: accepted a selection whose stored values are %s" % (where, "all zero (or empty)" if refuse_zero else "NaN")
            if zero_plates:
                # clause 6 read per plate (the defect reveal-zero-guard-is-joint, repaired by fix fx5): a plate whose stored values are
                # all zero is refused also when it is named together with plates holding non-zero values
                return "[reveal-refuses] %s: accepted a reveal naming plate id(s) %r whose stored values are all zero (%s)" % (
                    where, zero_plates, ", ".join("plate %d: %d rows, %s before" % (
                        p, sum(1 for q in b["pids"] if q == p),
                        "observed" if all(m for m, q in zip(b["mask"], b["pids"]) if q == p) else "unobserved") for p in zero_plates))
            if not exp_uniform:
                return "[ctor-rules] %s: a mixed plate was accepted" % where
            if any(x and not y for x, y in zip(b["mask"], after["mask"])):
                return "[reveal-monotone] %s: an observed experiment became hidden" % where
            if after["mask"] != exp:
                return "[reveal-exact] %s: new mask %r, expected old | (plate in ids) = %r" % (where, after["mask"], exp)
            m = _same_rows(b, after, "reveal")
            if m:
                return "[reveal-exact] %s: %s" % (where, m)
            if was_uniform:
                newly = {p for p, m_ in zip(b["pids"], b["mask"]) if p in ids and not m_}
                if b["meta"][2] - after["meta"][2] != len(newly) or after["meta"][1] != b["meta"][1]:
                    return "[unobserved-drop] %s: n_unobserved_plates %d -> %d but %d distinct plates were newly revealed" % (
                        where, b["meta"][2], after["meta"][2], len(newly))
        elif t in ("mask", "unmask"):
            if err is not None:
                return "[mask-unmask] %s raised %r" % (where, err)
            if any(x != (t == "unmask") for x in after["mask"]):
                return "[mask-unmask] %s: mask is %r" % (where, after["mask"])
            m = _same_rows(b, after, t)
            if m:
                return "[mask-unmask] %s: %s" % (where, m)
        elif t in ("saveload", "meta_cli"):
            if err is not None:
                if was_uniform:
                    return "[saveload-exact] %s raised %r" % (where, err)
                continue
            if not was_uniform:
                return "[ctor-rules] %s: load accepted a mixed plate" % where
            m = _same_rows(b, after, "save+load") or (None if b["mask"] == after["mask"] else "save+load changed the mask")
            if m:
                return "[saveload-exact] %s: %s" % (where, m)
            if t == "meta_cli" and not (extra.get("cli_meta") == after["meta"] == b["meta"]):
                return "[metadata] %s: screen_metadata.json says %r, the screen's plates give %r" % (where, extra.get("cli_meta"), b["meta"])
        elif t == "setobs":
            sel, vals = o[1], [sl.obs_bits(x) for x in o[2]]
            k_ = sum(sel)
            valid = len(sel) == len(b["mask"]) and len(vals) in (k_, 1)
            if err is not None:
                if valid:
                    return "[set-observed] %s: valid arguments refused: %r" % (where, err)
                continue
            if not valid:
                return "[set-observed] %s: ill-fitting arguments accepted" % where
            it = iter(vals if len(vals) == k_ else vals * k_)
            exp_obs, exp_mask = [], []
            for s_, ob, m_ in zip(sel, b["obs"], b["mask"]):
                exp_obs.append(next(it) if s_ else ob)
                exp_mask.append(True if s_ else m_)
            if after["obs"] != exp_obs or after["mask"] != exp_mask:
                return "[set-observed] %s: stored values / mask are not exactly the given ones at exactly the selected rows" % where
            if after["plates"] != b["plates"] or after["samples"] != b["samples"] or after["treats"] != b["treats"]:
                return "[set-observed] %s: changed something else" % where
        if after is not None and t != "setobs" and not _uniform(after["mask"], after["plates"]):
            return "[atomic] %s: a plate has mixed observation status afterwards" % where
        if after is not None and [after["meta"][1], after["meta"][2], after["meta"][3]] != _counters(after):
            return "[metadata] %s: the screen reports n_plates / n_unobserved / n_observed = %r, its rows give %r" % (where, after["meta"][1:4], _counters(after))
        if t == "meta_cli" and err is None and extra.get("cli_meta") is not None and list(extra["cli_meta"][1:4]) != _counters(after):
            return "[metadata] %s: screen_metadata.json counters %r, the rows give %r" % (where, extra["cli_meta"][1:4], _counters(after))
    return None


LIFECYCLE_PLATES = ["initial_plate", "unobserved_pl", "generated_plate_2", "generated_plate_10", "generated_plate_1", "merged_0_3", "holdout"]


def _lifecycle_names(rng, parent):
    """the plate names the real preparation produces (SparseCover's 'initial_plate' and its truncated 'unobserved_pl', the generators'
    'generated_plate_<n>' whose string order is not the numeric one: ids are ranks of NAMES, 10 < 2): reveals on such screens
    address plates by ids that follow the string order"""
    old = sorted({r["p"] for r in parent["rows"]})
    new = rng.sample(LIFECYCLE_PLATES, len(old))
    ren = dict(zip(old, new))
    return dict(parent, rows=[dict(r, p=ren[r["p"]]) for r in parent["rows"]])


def _numeric_parent(rng):
    style = rng.choice(["twelve", "one_based", "one_based", "descending", "offset", "padded"])
    n_pl = 12 if style == "twelve" else rng.choice([2, 3, 4, 5, 6])
    if style in ("twelve", "one_based"):
        names = [str(i + 1) for i in range(n_pl)]
    elif style == "descending":
        names = [str(n_pl - 1 - i) for i in range(n_pl)]
        names = [str(int(x) + 1) for x in names] if rng.random() < 0.5 else names
    elif style == "offset":
        off = rng.choice([2, 7, 9, 98])
        names = [str(i + off) for i in range(n_pl)]
    else:
        names = ["%02d" % (i + 1) for i in range(n_pl)]
    rng.shuffle(names)
    observed = set(rng.sample(names, rng.choice([0, 1, 1, 2]) if n_pl > 2 else 0))
    rows = []
    for p in names:
        for _ in range(rng.choice([1, 1, 2])):
            rows.append(dict(s=rng.choice(["a", "b", "c"]), p=p, t=[[rng.choice(["x", "y", "z"]), rng.choice([1.0, 2.0])]],
                             o=rng.choice(simlib.OBS), m=p in observed))
    rng.shuffle(rows)
    return dict(rows=rows, arity=1, ctrl="", obs_given=True, mask_given=True, tmap=None, smap=None)


def gen(rng, tier):
    N = 1 if tier == "quick" else 10
    for i in range(300 * N):
        parent = simlib.gen_parent(rng, small=(i % 5 == 0))
        if i % 4 == 3:
            parent = _lifecycle_names(rng, parent)
        fraction = rng.choice([0.0, 0.1, 0.3, 0.5, 0.5, 0.7, 1.0, 1.0])
        test = rng.random() < (0.08 if fraction == 0.0 else 0.3)
        yield dict(kind="sim", parent=parent, fraction=fraction, seed=rng.randrange(10 ** 6), test=test,
                   ops=simlib.gen_ops(rng, with_setobs=True, cli=(rng.random() < 0.5)))
    # plate NAMES that are integer literals different from the plate IDS (ids = ranks of the names in string order: "1" "10" "11"
    # "12" "2" ...; 1-based names; names in descending order): `--plate-id 2 5` must reveal the plates with IDS 2 and 5
    for i in range(40 * N):
        parent = _numeric_parent(rng)
        n_pl = len({r["p"] for r in parent["rows"]})
        ops = []
        for _ in range(rng.choice([1, 1, 2, 3])):
            ids = rng.sample(range(n_pl), min(n_pl, rng.choice([1, 2, 2, 3])))
            ops.append([rng.choice(["cli_reveal", "cli_reveal", "reveal"]), ids])
            if rng.random() < 0.5:
                ops.append(["meta_cli"])
        yield dict(kind="sim", parent=parent, fraction=rng.choice([0.0, 0.0, 0.0, 0.5]), seed=rng.randrange(10 ** 6), test=False, ops=ops[:6])
    for i in range(120 * N):
        ctrl = rng.choice(sl.CTRLS)
        rows, a = sl.gen_rows(rng, ctrl=ctrl, uniform_plates=(rng.random() < 0.5))
        if rng.random() < 0.3:
            for r in rows:
                r["o"] = rng.choice([0.0, -0.0, float("nan"), 0.5])
        og = rng.random() < 0.75
        yield dict(kind="ctor", rows=rows, arity=a, ctrl=ctrl, obs_given=og, mask_given=(rng.random() < (0.7 if og else 0.3)), tmap=None, smap=None)


def _features(desc, h):
    f = ["sim", "test_half" if desc["test"] else "train_half"]
    if not desc["ops"]:
        f.append("trivial")
    if h["empty"]:
        f.append("empty_half")
    P, S = h["snaps"]["parent"], h["snaps"]["test" if desc["test"] else "train"]
    if S["plates"] and dict(zip(S["plates"], S["pids"])).items() - dict(zip(P["plates"], P["pids"])).items():
        f.append("plate_ids_differ_from_parent")
    for o, before, after, err, extra in h["events"]:
        f.append("op_" + o[0])
        if err is not None:
            f.append("refused_" + o[0])
        if o[0] in ("reveal", "cli_reveal"):
            ids = o[1]
            b = extra.get("loaded", before)
            if len(set(ids)) < len(ids):
                f.append("repeated_id")
            if any(i not in b["pids"] for i in ids):
                f.append("unknown_id")
            if any(m and p in ids for m, p in zip(b["mask"], b["pids"])):
                f.append("already_observed")
            if not ids:
                f.append("empty_ids")
            vals = [sl.bits_obs(v) for v, p in zip(b["obs"], b["pids"]) if p in ids]
            if vals and all(v == 0 for v in vals):
                f.append("all_zero_plate")
            if any(math.isnan(v) for v in vals):
                f.append("nan_plate")
            if after is not None and sum(after["mask"]) > sum(b["mask"]):
                f.append("newly_revealed")
        if o[0] == "setobs" and after is not None and not _uniform(after["mask"], after["plates"]):
            f.append("setobs_breaks_plate")
    try:
        if any(int(pn) != pi for pn, pi in zip(S["plates"], S["pids"])):
            f.append("numeric_plate_names_differ_from_ids")
    except ValueError:
        pass
    return sorted(set(f))


def run(desc):
    if desc["kind"] == "sim":
        w = Watch()
        h = simlib.run_history(desc, w)
        return dict(wire=[0, simlib.wire_sim(desc, h)], impl=dict(h["start"], stages=h["stages"]),
                    pred=_pred_strict(desc, h) or ("[purity] " + w.diffs[0] if w.diffs else None),
                    features=_features(desc, h), cmp=simlib.cmp_sim)
    if desc["kind"] == "ctor":
        s = impl_call(sl.build, desc)
        rows = desc["rows"]
        mixed = not _uniform([r["m"] for r in rows], [r["p"] for r in rows])
        pred = None
        if isinstance(s, ImplError):
            impl = s
            if not ((desc["obs_given"] and desc["mask_given"] and mixed) or (desc["mask_given"] and not desc["obs_given"])):
                pred = "[ctor-rules] valid constructor arguments rejected: %r" % (s,)
        else:
            impl = _view(s)
            mask = [bool(x) for x in s.observation_mask]
            bits = [sl.obs_bits(x) for x in s.observations]
            if desc["mask_given"] and not desc["obs_given"]:
                pred = "[ctor-rules] mask without observations accepted"
            elif desc["obs_given"] and desc["mask_given"]:
                if mixed:
                    pred = "[ctor-rules] a plate with mixed observation status was accepted"
                elif mask != [r["m"] for r in rows] or bits != [sl.obs_bits(r["o"]) for r in rows]:
                    pred = "[ctor-rules] given mask / observations not stored verbatim"
            elif desc["obs_given"]:
                if not all(mask) or bits != [sl.obs_bits(r["o"]) for r in rows]:
                    pred = "[ctor-rules] observations without mask are not all observed with the given values"
            else:
                if any(mask) or any(b != 0 for b in bits):
                    pred = "[ctor-rules] no observations but some row observed / non-zero"
        f = ["ctor", "obs%d_mask%d" % (desc["obs_given"], desc["mask_given"])] + (["mixed_plate"] if mixed else []) + \
            (["rejected"] if isinstance(s, ImplError) else []) + (["trivial"] if len(rows) < 2 else [])
        return dict(wire=[1, sl.wire_mk_args(desc)], impl=impl, pred=pred, features=f, cmp=cmp_result())
    raise ValueError(desc["kind"])


def signature(desc, res):
    m = re.match(r"^\[([a-z-]+)\]", res.get("pred") or "")
    return m.group(1) if m else None


def shrink(desc):
    if desc["kind"] == "ctor":
        rows = desc["rows"]
        for i in range(len(rows)):
            yield dict(desc, rows=rows[:i] + rows[i + 1:])
        return
    ops = desc["ops"]
    for i in range(len(ops)):
        yield dict(desc, ops=ops[:i] + ops[i + 1:])
    for i, o in enumerate(ops):
        if o[0] == "cli_reveal":
            yield dict(desc, ops=ops[:i] + [["reveal", o[1]]] + ops[i + 1:])
        if o[0] == "meta_cli":
            yield dict(desc, ops=ops[:i] + [["saveload"]] + ops[i + 1:])
    rows = desc["parent"]["rows"]
    for i in range(len(rows)):
        yield dict(desc, parent=dict(desc["parent"], rows=rows[:i] + rows[i + 1:]))
