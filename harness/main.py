import importlib
import sys

import common


def main():
    if len(sys.argv) < 2:
        print("usage: check <ID> [quick|thorough] [--replay path]")
        return 2
    pid = sys.argv[1].upper()
    mod = importlib.import_module(pid.lower())
    return common.main_check(mod, sys.argv[2:])


if __name__ == "__main__":
    sys.exit(main())
