#!/bin/sh
# Offline build of the whole framework from files on disk: Coq development (full .vo),
# extracted OCaml models and their drivers.
set -e
cd "$(dirname "$0")"
export PYTHONPATH=/repo/src:$(pwd)/harness PYTHONHASHSEED=0
mkdir -p .work evidence replays
/venv/bin/python harness/gen_consts.py
( cd coq && ./mkproject.sh && timeout 3400 make -j"$(nproc)" ) > .work/setup_make.log 2>&1 || { tail -40 .work/setup_make.log; exit 1; }
for f in coq/theories/Extract/Ex*.v; do
  id=$(basename "$f" .v | sed 's/^Ex//' | tr A-Z a-z)
  ./driver/build.sh "$id"
done
/venv/bin/python - <<'PY'
import sys; sys.path.insert(0, "harness")
import common
bad = common.hygiene()
if bad:
    print("hygiene violations:", bad); sys.exit(1)
print("setup ok")
PY
